"""C09 — conditional inclusion keeps exactly the groups a conforming preprocessor keeps.

Decided: the dispatch of conditional directives and the nesting bookkeeping
while skipping match the preprocessor's conditional automaton ([cpp.cond]).
  R09.1 extracted automaton = reference automaton (ivf/spec/cpp_conditional.json)
  R09.2 skipped groups have no effect: the skipper calls nothing but the
        scanner primitives and, at nesting level 0, the #elif* re-tests.
Not decided: evaluation of the controlling expression (C07/C15), `defined` /
__has_include rewriting on strings, recognition of '#' by the scanner.
"""
import json
import os

from ..facts import peel, strip_casts, show, walk, cond_atom, implied
from .common import callee_short, field_of, assigned_target, const_int, local_ref
from . import gates as G

LEVEL = "other"
EXPLANATION = ("The directive->action tables of process_directive and skip_false_if_block and the polarity of the three #if handlers, "
               "extracted from the AST/CFG and compared with the conditional automaton of [cpp.cond]; plus an effect whitelist for the "
               "skipper.  Exhaustive over the eight conditional directives.")
TRUSTED = ["clang 14 AST/CFG", "ivf/spec/cpp_conditional.json (transcribed from ISO C++ [cpp.cond], C++23 for elifdef/elifndef)"]
ASSUMPTIONS = ["get_preprocessor_command returns the directive name", "the controlling expression is evaluated correctly (C07)"]

P = "CPPPreprocessor::"


def if_chain(fn, var_name=None):
    """[(set of string literals compared with ==, then-body node)] for the
    longest if / else-if chain on `<string var> == "literal"` in fn."""
    best = []
    for n in fn.walk():
        if n.get("k") != "if":
            continue
        chain = []
        node = n
        while node is not None and node.get("k") == "if":
            lits = set()
            ok = True
            for atom, truth in _disjuncts(node["c"]):
                c = G.cmp_atom(atom)
                lit = None
                if c and c[0] == "==":
                    for x in (c[1], c[2]):
                        y = strip_casts(x)
                        if y is not None and y.get("k") == "ctor" and y.get("a"):
                            y = strip_casts(y["a"][0])
                        if y is not None and y.get("k") == "str":
                            lit = y["v"]
                if lit is None:
                    ok = False
                else:
                    lits.add(lit)
            if not ok or not lits:
                break
            chain.append((lits, node["then"]))
            node = node.get("else")
        if len(chain) > len(best):
            best = chain
    return best


def _disjuncts(cond):
    n = peel(cond)
    if n is not None and n.get("k") == "bin" and n.get("op") == "||":
        return _disjuncts(n["x"]) + _disjuncts(n["y"])
    return [(n, True)]


def calls_in(body, prefix=P):
    return [c for c in walk(body) if c.get("k") == "call" and c.get("f", "").startswith(prefix)]


def run(ctx):
    db = ctx.db
    spec = json.load(open(os.path.join(os.path.dirname(os.path.dirname(__file__)), "spec", "cpp_conditional.json")))
    ctx.rule("R09.1", "directive dispatch, #if handler polarity and the skipper's nesting bookkeeping equal the conditional automaton of [cpp.cond]")
    ctx.rule("R09.2", "while skipping, nothing but scanner primitives is called, except the #elif* re-tests at nesting level 0; comment saving is off inside and restored on every exit")

    pd = db.fn(P + "process_directive")
    chain = if_chain(pd)
    table = {}
    for lits, body in chain:
        for l in lits:
            table[l] = body
    ctx.floor("R09.1", "directives dispatched by process_directive", len(table), 12)
    cond_dirs = set(spec["openers"]) | set(spec["alternatives"]) | {"endif"}
    for d in sorted(cond_dirs):
        ctx.ob("R09.1", "process_directive|knows|%s" % d, d in table, pd.loc(), "#%s is %sdispatched" % (d, "" if d in table else "NOT "))
    for d, handler in spec["opener_handlers"].items():
        body = table.get(d)
        cs = [callee_short(c) for c in calls_in(body)] if body is not None else []
        ctx.ob("R09.1", "process_directive|%s|handler" % d, cs == [handler], pd.loc(body) if body is not None else pd.loc(),
               "#%s calls %s (expected [%s])" % (d, cs, handler))
    for d in spec["alternatives"]:
        body = table.get(d)
        cs = calls_in(body) if body is not None else []
        ok = len(cs) == 1 and callee_short(cs[0]) == "skip_false_if_block" and const_int(cs[0]["a"][0]) == 0
        ctx.ob("R09.1", "process_directive|%s|skips-rest-of-conditional" % d, ok, pd.loc(body) if body is not None else pd.loc(),
               "in a taken group #%s skips to the matching #endif without considering further alternatives: %s" % (d, [show(c) for c in cs]))
    body = table.get("endif")
    ctx.ob("R09.1", "process_directive|endif|no-action", body is not None and not calls_in(body), pd.loc(), "#endif in a taken group does nothing")

    # ---- handlers: polarity
    for name, want_defined in (("handle_ifdef_directive", False), ("handle_ifndef_directive", True)):
        fn = db.fn(P + name)
        skips = [c for c in fn.calls(P + "skip_false_if_block")]
        ok = False
        if len(skips) == 1 and const_int(skips[0]["a"][0]) == 1:
            def is_def(atom, truth, want=want_defined):
                return atom.get("k") == "call" and callee_short(atom) == "is_manifest_defined" and truth == want
            ok = G.gated(fn, skips[0], G.edges_where(fn, is_def))
            # and not on the other polarity
            def is_def_other(atom, truth, want=want_defined):
                return atom.get("k") == "call" and callee_short(atom) == "is_manifest_defined" and truth != want
            ok = ok and not G.gated(fn, skips[0], G.edges_where(fn, is_def_other))
        ctx.ob("R09.1", "%s|polarity" % name, ok, fn.loc(), "skips (considering alternatives) exactly when the macro is %s" % ("defined" if want_defined else "undefined"))
    fn = db.fn(P + "handle_if_directive")
    skips = [c for c in fn.calls(P + "skip_false_if_block")]
    ok = False
    why = "expected one skip_false_if_block(true)"
    if len(skips) == 1 and const_int(skips[0]["a"][0]) == 1:
        # the value tested is the local that received result.as_integer()
        res = None
        for n in fn.walk():
            t = assigned_target(n)
            if t and local_ref(t[0]) is not None:
                r = strip_casts(t[1])
                if r is not None and r.get("k") == "call" and callee_short(r) == "as_integer":
                    res = local_ref(t[0])["d"]
        if res is not None:
            true_edges = G.edges_where(fn, G.local_true(res))
            false_edges = G.edges_where(fn, lambda atom, truth: (local_ref(atom) or {}).get("d") == res and not truth)
            sb = fn.cfg.locate(skips[0])[0]
            from_true = set()
            for (b, idx) in true_edges:
                s = fn.cfg.blocks[b].succs[idx]
                if s is not None:
                    from_true |= fn.cfg.reachable(s)
            ok = bool(true_edges) and sb not in from_true and G.gated(fn, skips[0], false_edges)
            why = "a true controlling expression continues without skipping; a false (or unevaluable) one skips considering alternatives"
            # default when the expression cannot be evaluated is 0
            for n in fn.walk():
                if n.get("k") == "decls":
                    for d in n["d"]:
                        if d.get("d") == res:
                            ok = ok and "init" in d and const_int(d["init"]) == 0
    ctx.ob("R09.1", "handle_if_directive|polarity", ok, fn.loc(), why)

    # ---- the skipper
    sk = db.fn(P + "skip_false_if_block")
    chain = if_chain(sk)
    stable = {}
    for lits, body in chain:
        for l in lits:
            stable[l] = body
    ctx.ob("R09.1", "skip_false_if_block|same-directive-set", set(stable) == cond_dirs, sk.loc(),
           "skipper recognises %s; conditional directives are %s" % (sorted(stable), sorted(cond_dirs)))
    level = None
    for n in sk.walk():
        if n.get("k") == "decls":
            for d in n["d"]:
                if d.get("ct") == "int" and "init" in d and const_int(d["init"]) == 0 and level is None:
                    level = d
    cparam = sk.params[0]["d"] if sk.params else None
    if level is None or cparam is None:
        ctx.broken("skip_false_if_block: nesting counter / consider_elifs parameter not found")

    def level_ops(body):
        inc = dec = 0
        for x in walk(body):
            if x.get("k") == "un" and (local_ref(x["e"]) or {}).get("d") == level["d"]:
                if "++" in x["op"]:
                    inc += 1
                if "--" in x["op"]:
                    dec += 1
        return inc, dec

    def gate_level0(atom, truth):
        c = G.cmp_atom(atom)
        if not c:
            return False
        op, a, b = c
        o = op if truth else G.NEG[op]
        for x, y in ((a, b), (b, a)):
            if (local_ref(x) or {}).get("d") == level["d"] and const_int(y) == 0:
                return o == "=="
        return False

    def gate_consider(atom, truth):
        return (local_ref(atom) or {}).get("d") == cparam and truth
    lvl0 = G.edges_where(sk, gate_level0)
    cons = G.edges_where(sk, gate_consider)
    for d in spec["openers"]:
        body = stable.get(d)
        inc, dec = level_ops(body) if body is not None else (0, 0)
        rets = [x for x in walk(body) if x.get("k") == "ret"] if body is not None else []
        ctx.ob("R09.1", "skip_false_if_block|%s|nests" % d, (inc, dec) == (1, 0) and not rets and not calls_in(body), sk.loc(body) if body is not None else sk.loc(),
               "#%s inside a skipped group only increments the nesting level (inc=%d dec=%d returns=%d)" % (d, inc, dec, len(rets)))
    for d in spec["alternatives"]:
        body = stable.get(d)
        if body is None:
            continue
        rets = [x for x in walk(body) if x.get("k") == "ret"]
        cs = calls_in(body)
        want = spec["alternative_handlers"].get(d)
        ok = bool(rets) and all(G.gated(sk, r, lvl0) and G.gated(sk, r, cons) for r in rets)
        ok = ok and all(G.gated(sk, c, lvl0) and G.gated(sk, c, cons) for c in cs)
        ok = ok and [callee_short(c) for c in cs] == ([want] if want else [])
        ok = ok and level_ops(body) == (0, 0)
        ctx.ob("R09.1", "skip_false_if_block|%s|acts-only-at-level0-when-considered" % d, ok, sk.loc(body),
               "#%s ends the skip only when level == 0 && consider_elifs, %s" % (d, ("re-testing through %s" % want) if want else "unconditionally taking the group"))
    body = stable.get("endif")
    if body is not None:
        rets = [x for x in walk(body) if x.get("k") == "ret"]
        inc, dec = level_ops(body)
        decs = [x for x in walk(body) if x.get("k") == "un" and "--" in x.get("op", "") and (local_ref(x["e"]) or {}).get("d") == level["d"]]
        nonzero = G.edges_where(sk, lambda atom, truth: gate_level0(atom, not truth))
        ok = bool(rets) and all(G.gated(sk, r, lvl0) for r in rets) and (inc, dec) == (0, 1) and all(G.gated(sk, x, nonzero) for x in decs) and not calls_in(body)
        ctx.ob("R09.1", "skip_false_if_block|endif|returns-at-level0-else-unnests", ok, sk.loc(body),
               "#endif returns iff level == 0, otherwise decrements the level once")

    # ------------------------------------------------------------ R09.2
    allowed = set(spec["skipper_may_call"])
    bad = []
    n_calls = 0
    for c in sk.walk():
        if c.get("k") == "call" and c.get("f", "").startswith(P):
            n_calls += 1
            if callee_short(c) not in allowed:
                bad.append(c)
    ctx.floor("R09.2", "preprocessor calls inside the skipper", n_calls, 6)
    ctx.ob("R09.2", "skip_false_if_block|effect-whitelist", not bad, sk.loc(bad[0]) if bad else sk.loc(),
           "calls only scanner primitives and the #elif* re-tests" if not bad else "calls %s while skipping" % [callee_short(c) for c in bad])
    writes = [n for n in sk.walk() if assigned_target(n) and (field_of(assigned_target(n)[0]) or "").startswith(P) and not (field_of(assigned_target(n)[0]) or "").endswith("_save_comments")]
    ctx.ob("R09.2", "skip_false_if_block|no-state-writes", not writes, sk.loc(writes[0]) if writes else sk.loc(),
           "writes no preprocessor state except _save_comments" if not writes else "writes %s" % [show(w) for w in writes])
    offs = [n for n in sk.walk() if assigned_target(n) and (field_of(assigned_target(n)[0]) or "").endswith("_save_comments") and const_int(assigned_target(n)[1]) == 0]
    ons = [n for n in sk.walk() if assigned_target(n) and (field_of(assigned_target(n)[0]) or "").endswith("_save_comments") and const_int(assigned_target(n)[1]) == 1]
    ok = False
    if len(offs) == 1 and ons:
        ob = sk.cfg.locate(offs[0])[0]
        reach = sk.cfg.reachable(ob, cut_blocks=[sk.cfg.locate(x)[0] for x in ons])
        ok = sk.cfg.exit not in reach
        # and it is switched off before the first character is consumed
        first_get = min((sk.cfg.locate(c) for c in sk.walk() if c.get("k") == "call" and callee_short(c) in ("get", "skip_comment")), default=None)
        ol = sk.cfg.locate(offs[0])
        ok = ok and first_get is not None and (ol[0] != first_get[0] or ol[1] < first_get[1]) and ol[0] in sk.cfg.dominators().get(first_get[0], {ol[0]})
    ctx.ob("R09.2", "skip_false_if_block|comment-saving-paired", ok, sk.loc(offs[0]) if offs else sk.loc(),
           "_save_comments is cleared before scanning and set again on every exit")
    manifest_keys(ctx)
    numbers_skipped_whole(ctx)
    rescan_keeps_mode(ctx)
    directives_end_with_the_line(ctx)
    skipper_steps_over_literals(ctx)
    header_names_not_macro_expanded(ctx)
    directive_arguments_keep_literals(ctx)
    comment_scanner_reads_one_character_per_step(ctx)
    has_include_agrees_with_include(ctx)
    definedness_has_one_judge(ctx)
    backward_trims_test_the_character_they_drop(ctx)
    leftover_identifiers_count_as_zero(ctx)
    a_comment_does_not_hide_a_directive(ctx)


def manifest_keys(ctx):
    """R09.3: #ifdef / defined() / expansion look a macro up by its bare name.  A freshly made CPPManifest parses that
    name out of its definition text (`SEL(x)` -> `SEL`); it must be filed under that parsed name, wherever it is made
    (#define and the -D options of both tools)."""
    db = ctx.db
    ctx.rule("R09.3", "a newly constructed CPPManifest is registered in _manifests under its own parsed name (<manifest>->_name), at every site that creates one (#define, -D in interrogate and parse_file)")
    n = 0
    for f in db.functions:
        if "/cppparser/" not in f.file and "/interrogate/" not in f.file:
            continue
        fresh = {}
        for st in f.walk():
            if st.get("k") == "decls":
                for d in st["d"]:
                    if any(x.get("k") == "new" and x.get("ty") == "CPPManifest" for x in walk(d.get("init") or {})):
                        fresh[d["d"]] = d["n"]
            t = assigned_target(st)
            if t and any(x.get("k") == "new" and x.get("ty") == "CPPManifest" for x in walk(t[1])):
                r = local_ref(t[0])
                if r is not None:
                    fresh[r["d"]] = r["n"]
        if not fresh:
            continue
        for c in f.walk():
            key = val = None
            if c.get("k") == "bin" and c.get("op") == "=":
                l = strip_casts(peel(c["x"]))
                if l is not None and l.get("k") == "call" and callee_short(l) == "operator[]" and (field_of(l["a"][0]) or "").endswith("CPPPreprocessor::_manifests"):
                    key, val = l["a"][1], c["y"]
            elif c.get("k") == "call" and callee_short(c) == "operator=" and c.get("opc") and len(c.get("a", [])) == 2:
                l = strip_casts(peel(c["a"][0]))
                if l is not None and l.get("k") == "call" and callee_short(l) == "operator[]" and (field_of(l["a"][0]) or "").endswith("CPPPreprocessor::_manifests"):
                    key, val = l["a"][1], c["a"][1]
            elif c.get("k") == "call" and callee_short(c) in ("insert", "emplace") and (field_of(c.get("this")) or "").endswith("CPPPreprocessor::_manifests"):
                parts = [x for x in walk(c) if x.get("k") == "ctor" and "pair" in (x.get("f") or "")]
                if parts and len(parts[0].get("a", [])) >= 2:
                    key, val = parts[0]["a"][0], parts[0]["a"][1]
                elif len(c.get("a", [])) == 2:
                    key, val = c["a"][0], c["a"][1]
            if key is None:
                continue
            v = local_ref(strip_casts(peel(val)))
            if v is None or v.get("d") not in fresh:
                continue
            n += 1
            k = strip_casts(peel(key))
            while k is not None and k.get("k") == "ctor" and len([a for a in k.get("a", []) if a.get("k") != "defarg"]) == 1:
                k = strip_casts(peel(k["a"][0]))
            hops = 0
            while k is not None and k.get("k") == "ref" and k.get("dk") == "local" and hops < 4:
                init = None
                for st2 in f.walk():
                    if st2.get("k") == "decls":
                        for d2 in st2["d"]:
                            if d2.get("d") == k.get("d") and d2.get("init") is not None:
                                init = d2["init"]
                if init is None:
                    break
                k = strip_casts(peel(init))
                while k is not None and k.get("k") == "ctor" and len([a for a in k.get("a", []) if a.get("k") != "defarg"]) == 1:
                    k = strip_casts(peel(k["a"][0]))
                hops += 1
            ok = k is not None and k.get("k") == "mem" and k.get("n", "").endswith("CPPManifest::_name") and (local_ref(k.get("b")) or {}).get("d") == v["d"]
            ctx.ob("R09.3", "%s|registers-under-own-name" % (f.name if "::" in f.name else f.file.split("/")[-1] + "::" + f.name), ok, f.loc(c),
                   "%s is filed under `%s`%s" % (v["n"], show(key)[:40], "" if ok else ": not the name the manifest parsed for itself"))
    ctx.floor("R09.3", "sites registering a new manifest", n, 3)




def numbers_skipped_whole(ctx):
    """R09.4: the controlling expression of #if is text; expand_manifests() walks it and replaces identifiers (macros,
    and - in #if - undefined names by 0).  A number must be stepped over as a whole, otherwise the letters inside it
    (0x10, 0b11, 1L, 10u, 1e5) are taken for an identifier and the condition is evaluated on mangled text."""
    db = ctx.db
    ctx.rule("R09.4", "in expand_manifests a digit starts a number that is consumed together with its alphanumeric tail (a branch on isdigit(expr[p]) containing a loop that advances over isalnum(expr[p])), so identifier scanning never starts inside a number")
    fn = db.fn("CPPPreprocessor::expand_manifests")
    found = []
    for node in fn.walk():
        if node.get("k") != "if":
            continue
        atom, pos = cond_atom(fn, node["c"])
        conds = [x for x in walk(node["c"]) if x.get("k") == "call" and callee_short(x) == "isdigit"]
        if not conds:
            continue
        # the then-branch advances the cursor over the alphanumeric tail
        loops = [lp for lp in walk(node.get("then") or {}) if lp.get("k") in ("while", "for", "do")
                 and any(y.get("k") == "call" and callee_short(y) in ("isalnum", "isxdigit") for y in walk(lp.get("c") or {}))
                 and any(y.get("k") == "un" and y.get("op") in ("++", "post++") for y in walk(lp.get("body") or {}))]
        if loops:
            found.append(node)
    ctx.ob("R09.4", "expand_manifests|number-consumed-whole", bool(found), fn.loc(found[0]) if found else fn.loc(),
           "a number is %sstepped over together with its letters" % ("" if found else "NOT "))
    # and the identifier branch comes from a character test that a digit fails (isalpha / '_')
    ident = [node for node in fn.walk() if node.get("k") == "if" and any(y.get("k") == "call" and callee_short(y) == "isalpha" for y in walk(node["c"]))]
    ctx.ob("R09.4", "expand_manifests|identifier-starts-with-letter", bool(ident), fn.loc(ident[0]) if ident else fn.loc(), "identifier scanning starts at isalpha()/_ only")




def rescan_keeps_mode(ctx):
    """R09.5: in #if every identifier that is left after macro replacement is replaced by 0 - also one that only appears
    once a macro has been replaced (`#define A B` / `#if A == 0`).  The rescan of a replacement list must therefore run
    in the same mode as the scan that found the macro."""
    db = ctx.db
    ctx.rule("R09.5", "expand_manifests() rescans a macro's replacement text with the expand_undefined mode it was itself called with")
    fn = db.fn("CPPPreprocessor::expand_manifests")
    mode = [p for p in fn.params if p["t"] == "bool"]
    if not mode:
        ctx.broken("expand_manifests: bool mode parameter not found")
    md = mode[0]["d"]
    idx = [i for i, p in enumerate(fn.params) if p["d"] == md][0]
    rec = [c for c in fn.walk() if c.get("k") == "call" and c.get("f") == fn.name and len(c.get("a", [])) > idx]
    if not rec:
        ctx.broken("expand_manifests: the rescanning self-call not found")
    for i, c in enumerate(rec):
        a = strip_casts(peel(c["a"][idx]))
        ok = a is not None and a.get("k") == "ref" and a.get("d") == md
        ctx.ob("R09.5", "expand_manifests|rescan#%d|forwards-mode" % i, ok, fn.loc(c), "the rescan passes `%s` as expand_undefined" % (show(c["a"][idx])[:30]))
    # the expansion of the arguments (manifest->expand) gets it too
    ex = [c for c in fn.walk() if c.get("k") == "call" and callee_short(c) == "expand" and "this" in c]
    for i, c in enumerate(ex):
        ok = any((strip_casts(peel(a)) or {}).get("d") == md for a in c.get("a", []))
        ctx.ob("R09.5", "expand_manifests|expand#%d|forwards-mode" % i, ok, fn.loc(c), "manifest->expand(...) receives the mode")



def _conjuncts(cond):
    n = peel(cond)
    if n is not None and n.get("k") == "bin" and n.get("op") == "&&":
        return _conjuncts(n["x"]) + _conjuncts(n["y"])
    return [n]


def _ne_const(cond, value):
    """True if `cond` has a top-level conjunct `<expr> != value`."""
    for a in _conjuncts(cond):
        c = G.cmp_atom(a)
        if c and c[0] == "!=" and (const_int(c[2]) == value or const_int(c[1]) == value):
            return True
    return False


def directives_end_with_the_line(ctx):
    """R09.6: a directive is one line ([cpp.pre]/1); `#` alone on a line is a null directive.  The scanners that run
    between the `#` and the directive name must therefore not cross a newline: skip_whitespace() does, so neither
    process_directive nor the skipper may call it, and every blank-skipping loop of the three directive scanners stops at
    '\\n'.  (F-C09b: `#` / `#define X 1` lost the define.)"""
    db = ctx.db
    ctx.rule("R09.6", "the directive scanners (process_directive, skip_false_if_block, get_preprocessor_command) do not cross the end of the line: no skip_whitespace() call, and every loop that skips isspace() characters also tests c != '\\n'")
    n_loops = 0
    for short in ("process_directive", "skip_false_if_block", "get_preprocessor_command"):
        fn = db.fn(P + short)
        sw = [c for c in fn.walk() if c.get("k") == "call" and callee_short(c) == "skip_whitespace"]
        ctx.ob("R09.6", "%s|no-skip_whitespace" % short, not sw, fn.loc(sw[0]) if sw else fn.loc(),
               "skip_whitespace() (which crosses line ends) is %scalled while a directive line is scanned" % ("" if sw else "not "))
        loops = [lp for lp in fn.walk() if lp.get("k") in ("while", "for", "do")
                 and any(y.get("k") == "call" and callee_short(y) == "isspace" for y in walk(lp.get("c") or {}))]
        for i, lp in enumerate(loops):
            n_loops += 1
            ok = _ne_const(lp["c"], 10)
            ctx.ob("R09.6", "%s|blank-loop#%d|stops-at-newline" % (short, i), ok, fn.loc(lp), "loop over isspace() characters: `%s`" % show(lp["c"])[:80])
    ctx.floor("R09.6", "blank-skipping loops in the directive scanners", n_loops, 3)


def _steps_over_literals(ctx, RID, short, rule_text):
    """R09.7: the text of a skipped group is still a sequence of preprocessing tokens ([cpp.cond]/6: "tokens are
    processed only so far as to keep track of nested conditionals"); a comment opener inside a string or character
    literal is not a comment.  (F-C09c: `#if 0` / `s = "/*";` / `#endif` swallowed the rest of the file.)"""
    db = ctx.db
    ctx.rule(RID, rule_text)
    sk = db.fn(P + short)
    found = None
    for node in sk.walk():
        if node.get("k") != "if":
            continue
        consts = set()
        for atom, _ in _disjuncts(node["c"]):
            # a disjunct may carry further conditions (`c == '\'' && <not a digit separator>`)
            for leaf in _conjuncts(atom):
                c = G.cmp_atom(leaf)
                if c and c[0] == "==":
                    for x in (c[1], c[2]):
                        if const_int(x) is not None:
                            consts.add(const_int(x))
        if {34, 39} <= consts:
            found = node
            break
    ctx.ob(RID, short + "|literal-branch", found is not None, sk.loc(found) if found else sk.loc(),
           "a branch on both quote characters %s" % ("exists" if found else "is missing: literals are scanned for comments"))
    if found is None:
        return
    loops = [lp for lp in walk(found["then"]) if lp.get("k") in ("while", "for", "do")]
    good = None
    for lp in loops:
        calls = [callee_short(c) for c in walk(lp.get("body") or {}) if c.get("k") == "call" and c.get("f", "").startswith(P)]
        calls += [callee_short(c) for c in walk(lp.get("c") or {}) if c.get("k") == "call" and c.get("f", "").startswith(P)]
        # terminates at the quote (a != test against a non-constant, i.e. the remembered quote, or against both quotes), at \n and EOF
        cmps = [G.cmp_atom(a) for a in _conjuncts(lp["c"])]
        ne_quote = any(c and c[0] == "!=" and ((const_int(c[1]) is None and const_int(c[2]) is None) or const_int(c[2]) in (34, 39)) for c in cmps)
        if "get" in calls and "skip_comment" not in calls and ne_quote and _ne_const(lp["c"], 10) and _ne_const(lp["c"], -1):
            good = lp
    ctx.ob(RID, short + "|literal-branch|consumed-raw", good is not None, sk.loc(good or found),
           "the literal's characters are read with get() until the quote, the end of the line or EOF, without looking for comments")
    if good is None:
        return
    esc = [n for n in walk(good.get("body") or {}) if n.get("k") == "if"
           and any((G.cmp_atom(a) or [None])[0] == "==" and 92 in (const_int(G.cmp_atom(a)[1]), const_int(G.cmp_atom(a)[2])) for a in _conjuncts(n["c"]))
           and any(c.get("k") == "call" and callee_short(c) == "get" for c in walk(n["then"]))]
    ctx.ob(RID, short + "|literal-branch|escapes", bool(esc), sk.loc(esc[0]) if esc else sk.loc(good),
           "a backslash inside the literal takes the next character with it%s" % ("" if esc else " - NOT: \"\\\"/*\" would open a comment"))


def skipper_steps_over_literals(ctx):
    _steps_over_literals(ctx, "R09.7", "skip_false_if_block",
                         "skip_false_if_block has a branch on c == '\"' || c == '\\'' that consumes the literal with get() only (never skip_comment()) up to the matching quote or the end of the line, stepping over backslash escapes")


def directive_arguments_keep_literals(ctx):
    """R09.9: the text of a directive (#if expression, #define body, #include name) is collected by
    get_preprocessor_args(), which strips comments.  `//` or `/*` inside a string or character literal is not a comment:
    `#define URL "http://x"`, `#if defined(X) && "a//b"[0]`, `#include "dir//x.h"`.  Same obligation as R09.7, for the
    collecting scanner.  (F-C08b.)"""
    _steps_over_literals(ctx, "R09.9", "get_preprocessor_args",
                         "get_preprocessor_args has a branch on the quote characters that copies the literal with get() only (never skip_comment()) up to the matching quote or the end of the line, honouring backslash escapes")



def header_names_not_macro_expanded(ctx):
    """R09.8: the operand of #include / __has_include is macro-expanded only when it is NOT already a header name
    ([cpp.include]/4; `<sys/types.h>` with `#define sys 1` must stay what it is - expand_manifests() steps over "..." but
    knows nothing of <...>).  Both sites guard the expansion: handle_include_directive by the first character,
    expand_has_include_function by a flag that is set only when an identifier character is met OUTSIDE quotes and angle
    brackets.  The call must stay behind such a guard at both sites.  (Seed S6-C09.)"""
    db = ctx.db
    ctx.rule("R09.8", "in handle_include_directive and expand_has_include_function the header-name text is handed to expand_manifests() only under a condition that excludes a literal <...> / \"...\" name (first character test, or a flag set only on unquoted identifier characters)")
    n = 0
    for short in ("handle_include_directive", "expand_has_include_function"):
        f = db.fn(P + short)
        calls = [c for c in f.walk() if c.get("k") == "call" and c.get("f") == P + "expand_manifests"]
        if not calls:
            ctx.ob("R09.8", "%s|no-expansion" % short, True, f.loc(), "does not expand the name at all")
            continue
        for i, c in enumerate(calls):
            n += 1
            arg = local_ref(c["a"][0]) if c.get("a") else None
            ok = False
            why = "unconditional"
            for anc in f.ancestors(c):
                if anc.get("k") != "if" or anc.get("c") is None:
                    continue
                # the call must be in the then-branch of this if
                if not any(x is c for x in walk(anc.get("then") or {})):
                    continue
                cond = anc["c"]
                # (i) first-character test of the same text against '<'
                firsts = [y for y in walk(cond) if G.cmp_atom(y) and G.cmp_atom(y)[0] == "!=" and 60 in [const_int(z) for z in G.cmp_atom(y)[1:] if z is not None]]
                if firsts:
                    ok, why = True, "behind `%s`" % show(cond)[:50]
                    break
                # (ii) a flag set only where an identifier character was seen
                fl = local_ref(peel(cond))
                if fl is not None:
                    sets = [y for y in f.walk() if assigned_target(y) and (local_ref(assigned_target(y)[0]) or {}).get("d") == fl["d"] and const_int(assigned_target(y)[1]) == 1]
                    good = bool(sets)
                    for sy in sets:
                        under = False
                        for a2 in f.ancestors(sy):
                            if a2.get("k") == "if" and any(z.get("k") == "call" and callee_short(z) in ("isalnum", "isalpha") for z in walk(a2.get("c") or {})) \
                                    and any(x is sy for x in walk(a2.get("then") or {})):
                                under = True
                        good = good and under
                    if good:
                        ok, why = True, "behind the flag `%s`, set only on identifier characters outside quotes" % fl.get("n")
                        break
            ctx.ob("R09.8", "%s|expand_manifests#%d|guarded" % (short, i), ok, f.loc(c), "expand_manifests(%s): %s" % (show(c["a"][0]) if c.get("a") else "?", why))
    ctx.floor("R09.8", "expansions of a header-name operand", n, 2)


def comment_scanner_reads_one_character_per_step(ctx):
    """R09.10: skip_c_comment() looks for `*` `/`.  Its loops hold the current character in c and must examine EVERY
    character as a possible `*`: each trip round the loop reads exactly one new character.  Reading a second one after a
    `*` that was not followed by `/` skips the test of that character - `**/` is then not seen as the end of the
    comment, and in a skipped group (the only user of the non-recording loop) the comment runs on over the following
    #else / #endif.  (Seed S7-C09.)"""
    db = ctx.db
    ctx.rule("R09.10", "in every loop of skip_c_comment each path from the loop test back to the loop test calls get() exactly once (paths that return are exempt)")
    f = db.fn(P + "skip_c_comment")
    cfg = f.cfg
    loops = [lp for lp in f.walk() if lp.get("k") in ("while", "for", "do")]
    n = 0
    for li, lp in enumerate(loops):
        head = None
        for y in walk(lp.get("c") or {}):
            head = cfg.locate(y) if "i" in y else None
            if head:
                break
        if head is None:
            continue
        hb = head[0]
        body_nodes = {id(y) for y in walk(lp.get("body") or {})}
        gets_in_block = {}
        for c in f.walk():
            if c.get("k") == "call" and callee_short(c) == "get" and id(c) in body_nodes:
                loc = cfg.locate(c)
                if loc:
                    gets_in_block[loc[0]] = gets_in_block.get(loc[0], 0) + 1
        # body entry: the successor of the head that lies in the body
        body_blocks = set()
        for y in walk(lp.get("body") or {}):
            loc = cfg.locate(y) if "i" in y else None
            if loc:
                body_blocks.add(loc[0])
        starts = [s for s in cfg.blocks[hb].succs if s is not None and (s in body_blocks)]
        counts = set()
        bad_path = None

        def dfs(b, cnt, seen, path):
            nonlocal bad_path
            if b == hb:
                counts.add(cnt)
                if cnt != 1 and bad_path is None:
                    bad_path = list(path)
                return
            if b in seen or b == cfg.exit or cfg.blocks[b].noret:
                return
            cnt2 = cnt + gets_in_block.get(b, 0)
            for s in cfg.blocks[b].succs:
                if s is not None:
                    dfs(s, cnt2, seen | {b}, path + [b])
        for s in starts:
            dfs(s, 0, frozenset(), [])
        n += 1
        ok = counts == {1}
        ctx.ob("R09.10", "skip_c_comment|loop#%d|one-get-per-iteration" % li, ok, f.loc(lp),
               "get() calls on the paths round the loop: %s" % (sorted(counts) if counts else "no path returns to the test"))
    ctx.floor("R09.10", "scanning loops of skip_c_comment", n, 2)


def has_include_agrees_with_include(ctx):
    """R09.11: `#if __has_include(<f>)` keeps its group exactly when `#include <f>` would find f: both ask find_include(),
    and both must ask it in the same way.  The only thing a caller decides is the `angle_quotes` argument: true for the
    <...> spelling unless -noangles is in force.  (Seed S8-C09: the polarity of the _noangles test flipped in
    expand_has_include_function only.)"""
    db = ctx.db
    ctx.rule("R09.11", "every caller of CPPPreprocessor::find_include passes a local flag that starts false and is set true only where _noangles is false and the operand's first character was compared with '<'")
    n = 0
    for f in db.functions:
        for c in f.calls("CPPPreprocessor::find_include"):
            n += 1
            a = c.get("a") or []
            r = local_ref(a[1]) if len(a) > 1 else None
            inst = "%s|find_include|angle-argument" % f.name
            if r is None:
                ctx.ob("R09.11", inst, False, f.loc(c), "the angle_quotes argument is not a local flag")
                continue
            d = r["d"]
            init_false = False
            for y in f.walk():
                if y.get("k") == "decls":
                    for dd in y["d"]:
                        if dd.get("d") == d and "init" in dd and const_int(dd["init"]) == 0:
                            init_false = True
            sets = [y for y in f.walk() if assigned_target(y) and (local_ref(assigned_target(y)[0]) or {}).get("d") == d]
            noangles_false = G.edges_where(f, lambda atom, truth: (not truth) and (field_of(strip_casts(peel(atom))) or "").endswith("::_noangles"))

            def is_lt(atom, truth):
                ca = G.cmp_atom(atom)
                if not ca:
                    return False
                op, x, y = ca
                op = op if truth else G.NEG[op]
                return op == "==" and any(const_int(z) == ord("<") for z in (x, y) if z is not None)
            lt = G.edges_where(f, is_lt)
            ok = init_false and bool(sets)
            why = []
            for y in sets:
                v = const_int(assigned_target(y)[1])
                if v == 0:
                    continue
                if v != 1:
                    ok = False
                    why.append("assigned something other than true/false")
                    continue
                if not (noangles_false and G.gated(f, y, noangles_false)):
                    ok = False
                    why.append("set true where _noangles may be true")
                if not (lt and G.gated(f, y, lt)):
                    ok = False
                    why.append("set true without the operand's first character being '<'")
            ctx.ob("R09.11", inst, ok, f.loc(c), "; ".join(why) if why else
                   ("`%s` starts false and becomes true only for the <...> spelling with _noangles false" % r.get("n") if ok else "`%s` is not a flag that starts false and is set in the function" % r.get("n")))
    ctx.floor("R09.11", "callers of find_include", n, 2)


DEFINEDNESS_CONSUMERS = ("CPPPreprocessor::handle_ifdef_directive", "CPPPreprocessor::handle_ifndef_directive", "CPPPreprocessor::expand_defined_function")


def definedness_has_one_judge(ctx):
    """R09.12: `#ifdef X`, `#ifndef X`, `#elifdef X`, `#elifndef X` (which re-enter the two handlers) and `defined(X)` in
    an #if expression ask the same question and must get the same answer.  is_manifest_defined() is the one place that
    knows the answer (the macro table plus the built-ins __has_include, __FILE__, __LINE__): each consumer calls it and
    none looks into the table itself.  (Seed S9-C09: defined() became a bare `_manifests.find()`;
    `#if defined(__has_include) && __has_include("x")` silently took the #else group.)"""
    db = ctx.db
    ctx.rule("R09.12", "handle_ifdef_directive, handle_ifndef_directive and expand_defined_function decide through is_manifest_defined() and do not search _manifests themselves")
    n = 0
    for name in DEFINEDNESS_CONSUMERS:
        fs = [g for g in db.functions if g.name == name]
        if not fs:
            ctx.broken("R09.12: %s not found" % name)
            continue
        f = fs[0]
        n += 1
        asks = [c for c in f.walk() if c.get("k") == "call" and callee_short(c) == "is_manifest_defined"]
        own = [c for c in f.walk() if c.get("k") == "call" and callee_short(c) in ("find", "count", "at", "operator[]") and
               any(z.get("k") == "mem" and (z.get("n") or "").endswith("::_manifests") for z in walk(c.get("this") or (c.get("a") or [{}])[0]))]
        ok = bool(asks) and not own
        ctx.ob("R09.12", "%s|asks-is_manifest_defined" % name.split("::")[-1], ok, f.loc(own[0]) if own else f.loc(),
               "decides through is_manifest_defined()" if ok else ("searches _manifests itself: the built-in names are defined for the other directives and not here" if own else "does not ask is_manifest_defined()"))
    # and the judge knows the built-ins
    js = [g for g in db.functions if g.name == "CPPPreprocessor::is_manifest_defined"]
    if js:
        names = {z.get("v") for z in js[0].walk() if z.get("k") == "str"}
        ok = {"__has_include", "__FILE__", "__LINE__"} <= names
        ctx.ob("R09.12", "is_manifest_defined|built-ins", ok, js[0].loc(), "the built-in names are %s" % sorted(x for x in names if x))
    ctx.floor("R09.12", "consumers of definedness", n, 3)


def _is_local_minus(n, d, k):
    """n is `<local d> - k` (k int), or the local itself for k == 0."""
    n = strip_casts(peel(n)) if n is not None else None
    if n is None:
        return False
    if k == 0:
        return (local_ref(n) or {}).get("d") == d
    return n.get("k") == "bin" and n.get("op") == "-" and (local_ref(n["x"]) or {}).get("d") == d and const_int(n["y"]) == k


def backward_trims_test_the_character_they_drop(ctx):
    """R09.13: the scanners cut an operand out of a line with two cursors and then drop trailing blanks by walking the end
    cursor back: `while (t > r && isspace(X[t - 1])) --t;  ... X.substr(r, t - r)`.  With an EXCLUSIVE end cursor (the
    length is `t - r`) the character that would be dropped is `X[t - 1]`; with an inclusive one (`last - first + 1`) it is
    `X[last]`.  Testing the other one either strips nothing or strips a character too many.
    (Seed S10-C09: `isspace(expr[t])` in expand_has_include_function - the `)` after the operand - so `__has_include( "x.h" )`
    kept its trailing blank, was "invalid", and evaluated to 0 for a file that exists.)"""
    db = ctx.db
    ctx.rule("R09.13", "in a loop `while (t > r && isspace(X[e])) --t`, e is `t - 1` when the text is later taken as substr(r, t - r) and `t` when it is taken as substr(r, t - r + 1)")
    n = 0
    for f in db.functions:
        if not any(d in f.file for d in ("/cppparser/", "/interrogate/", "/dtoolutil/")):
            continue
        for lp in f.walk():
            if lp.get("k") != "while" or lp.get("c") is None:
                continue
            decs = [y for y in walk(lp.get("body") or {}) if y.get("k") == "un" and "--" in (y.get("op") or "") and local_ref(y.get("e")) is not None]
            if len(decs) != 1:
                continue
            d = local_ref(decs[0]["e"])["d"]
            name = local_ref(decs[0]["e"]).get("n")
            subs = None
            for c in walk(lp["c"]):
                if c.get("k") == "call" and callee_short(c) == "isspace" and c.get("a"):
                    for z in walk(c["a"][0]):
                        if z.get("k") == "call" and callee_short(z) == "operator[]" and z.get("a"):
                            subs = z["a"][-1]
                        elif z.get("k") == "idx":
                            subs = z.get("x")
            if subs is None:
                continue
            # how is the cursor used afterwards?
            style = None
            for c in f.walk():
                if c.get("k") == "call" and callee_short(c) == "substr" and len(c.get("a", [])) == 2 and c.get("i", 0) > lp.get("i", 0):
                    ln = strip_casts(peel(c["a"][1]))
                    if ln is None or ln.get("k") != "bin":
                        continue
                    if ln.get("op") == "-" and (local_ref(ln["x"]) or {}).get("d") == d:
                        style = "exclusive"
                    elif ln.get("op") == "+" and const_int(ln["y"]) == 1:
                        inner = strip_casts(peel(ln["x"]))
                        if inner is not None and inner.get("k") == "bin" and inner.get("op") == "-" and (local_ref(inner["x"]) or {}).get("d") == d:
                            style = "inclusive"
            if style is None:
                continue
            n += 1
            ok = _is_local_minus(subs, d, 1) if style == "exclusive" else _is_local_minus(subs, d, 0)
            ctx.ob("R09.13", "%s|trim(%s)|tests-the-dropped-character" % (f.name, name), ok, f.loc(lp),
                   "end cursor `%s` is %s and the loop tests X[%s]" % (name, style, show(subs)))
    ctx.floor("R09.13", "backward trim loops whose cursor delimits a substr", n, 3)


def leftover_identifiers_count_as_zero(ctx):
    """R09.14: after macro expansion every identifier still standing in an #if expression is replaced by 0 ([cpp.cond]) -
    ALSO a macro's own name met again while it is being expanded (`#define EPOLLIN EPOLLIN`, glibc's idiom): that name is
    in the macro table, it is only barred from further expansion.  In expand_manifests() the replacement by "0" may depend
    on `expand_undefined` and on the spelling (`true`/`false`), not on whether the table knows the name.
    (Seed S11-C09: `mi == _manifests.end() &&` added; `#if EPOLLIN` kept a bare identifier and the wrong group.)"""
    db = ctx.db
    ctx.rule("R09.14", "in expand_manifests the statement that substitutes \"0\" for a leftover identifier is conditioned on expand_undefined and the identifier's spelling only, never on a lookup in _manifests")
    fs = [g for g in db.functions if g.name == "CPPPreprocessor::expand_manifests"]
    n = 0
    for f in fs:
        iters = set()
        for y in f.walk():
            if y.get("k") == "decls":
                for dd in y["d"]:
                    if dd.get("init") is not None and any(z.get("k") == "mem" and (z.get("n") or "").endswith("::_manifests") for z in walk(dd["init"])):
                        iters.add(dd["d"])
        for y in f.walk():
            if not (y.get("k") == "call" and callee_short(y) == "operator=" ):
                continue
            parts = ([y.get("this")] if "this" in y else []) + list(y.get("a", []))
            if len(parts) < 2 or not any(z.get("k") == "str" and z.get("v") == "0" for z in walk(parts[1])):
                continue
            n += 1
            conds = []
            for a in f.ancestors(y):
                if a.get("k") == "if" and any(z is y for z in walk(a.get("then") or {})):
                    conds.append(a["c"])
            bad = [c for c in conds if any((z.get("k") == "mem" and (z.get("n") or "").endswith("::_manifests")) or (z.get("k") == "ref" and z.get("d") in iters) for z in walk(c))]
            has_flag = any(any(z.get("k") == "ref" and z.get("n") == "expand_undefined" for z in walk(c)) for c in conds)
            ctx.ob("R09.14", "expand_manifests|identifier->0|independent-of-the-macro-table", has_flag and not bad, f.loc(y),
                   "a leftover identifier becomes 0 whenever expand_undefined is set" if has_flag and not bad else
                   ("the substitution also requires `%s`: a macro's own name, left unexpanded, stays in the expression" % show(bad[0])[:70] if bad else "the substitution is not tied to expand_undefined"))
    ctx.floor("R09.14", "zero substitutions in expand_manifests", n, 1)


def a_comment_does_not_hide_a_directive(ctx):
    """R09.15: after translation phase 3 a comment is one space, so `/* c */ #else` is a directive like ` #else`
    ([cpp]/2: "first character in the source file or follows white space containing at least one new-line", comments
    being white space by then).  Both directive tests read `c == '#' && _start_of_line`, and get() clears the flag on
    every character that is neither space nor `#` - including the `/` and `*` of a comment.  Unless the comment skipper
    writes the flag back, a directive behind a comment is missed: a group that must be kept is skipped (F-C09c, known:
    `#if 0` / `/* c */ #else` / `int kept;` / `#endif` loses `kept`).  Decided structurally: some function of the
    comment-skipping family assigns `_start_of_line`."""
    db = ctx.db
    ctx.rule("R09.15", "the comment skipper restores CPPPreprocessor::_start_of_line, which get() clears on the characters of a comment")
    fam = [g for g in db.functions if g.name in ("CPPPreprocessor::skip_comment", "CPPPreprocessor::skip_c_comment", "CPPPreprocessor::skip_whitespace")]
    tests = 0
    for g in db.functions:
        if not g.name.startswith("CPPPreprocessor::"):
            continue
        for y in g.walk():
            if y.get("k") == "bin" and y.get("op") == "&&" and any(z.get("k") == "mem" and (z.get("n") or "").endswith("::_start_of_line") for z in walk(y)) \
                    and any(const_int(z) == ord("#") for z in walk(y)):
                tests += 1
                break
    if len(fam) < 2:
        ctx.broken("R09.15: skip_comment / skip_c_comment not found")
        return
    writes = []
    for g in fam:
        for y in g.walk():
            t = assigned_target(y)
            if t and (field_of(strip_casts(peel(t[0]))) or "").endswith("::_start_of_line"):
                writes.append((g, y))
    c = next(g for g in fam if g.name.endswith("skip_c_comment") or g.name.endswith("skip_comment"))
    premise = False
    for g in db.functions:
        if g.name != "CPPPreprocessor::get":
            continue
        for y in g.walk():
            t = assigned_target(y)
            if t and (field_of(strip_casts(peel(t[0]))) or "").endswith("::_start_of_line") and const_int(t[1]) == 0:
                conds = [a.get("c") for a in g.ancestors(y) if a.get("k") == "if"]
                premise = not any(const_int(z) == ord("/") for cnd in conds if cnd for z in walk(cnd))
    if not premise:
        ctx.ob("R09.15", "skip_c_comment|_start_of_line|survives-a-comment", True, c.loc(), "get() does not clear the flag on the characters of a comment")
        ctx.floor("R09.15", "directive tests on `#` and _start_of_line", tests, 2)
        return
    ctx.ob("R09.15", "skip_c_comment|_start_of_line|survives-a-comment", bool(writes), writes[0][0].loc(writes[0][1]) if writes else c.loc(),
           "the flag is written back after a comment" if writes else
           "no comment skipper writes _start_of_line: `/* c */ #else` in a skipped group (and `/* c */ #if` in kept text) is not taken as a directive")
    ctx.floor("R09.15", "directive tests on `#` and _start_of_line", tests, 2)
