"""C17 — include lookup, once-only inclusion, file ownership.

Decided:
  R17.1 the probe sequence of find_include (guard on angle_quotes, probe,
        ownership label) equals the documented one; `<...>` sets angle mode iff
        !_noangles; a failed lookup only warns.
  R17.2 -I/-S build the two search paths the way the sequence assumes, and
        every directory appended to the quote path has exactly one kind entry.
  R17.4 the keys used for once-only inclusion and for "named on the command
        line" are canonical names, and inserted/looked-up keys of
        _explicit_files go through the same normaliser.
  (R17.3 ownership of S_local = R04.4, evaluated under C04.)
Not decided: Filename::standardize/make_canonical themselves (string
algorithms over run-time paths).
"""
from ..facts import peel, strip_casts, show, walk, cond_atom
from .common import (callee_short, field_of, assigned_target, const_int, local_ref, enclosing_loops, loop_container, deref)
from . import gates as G

LEVEL = "other"
EXPLANATION = ("Probe order and ownership labels of CPPPreprocessor::find_include extracted from its CFG and compared with the "
               "documented sequence; -I/-S plumbing in both mains; canonicalisation points of the once-only and explicit-file keys. "
               "Necessary conditions of C17; path normalisation itself is not judged.")
TRUSTED = ["clang 14 AST/CFG", "Filename::exists/resolve_filename/make_canonical behave as documented"]
ASSUMPTIONS = ["DSearchPath::append_directory appends at the end and resolve_filename searches in order"]

REFERENCE = [
    # (needs angle?, probe kind, ownership)
    (False, "as-given", "S_local"),
    (False, "includer-dir", "S_alternate"),
    # the <> form: a name that is not local (absolute) as given, then each -S directory.  Until F-C17c this row read
    # (True, "angle-path", ...): the lookup was left to DSearchPath::find_file(), which this table accepted although it
    # takes a directory for the file and treats an empty path as "." - the reference had copied the defect.
    (True, "as-given", "S_system"),
    (True, "angle-path-manual", "S_system"),
    (False, "quote-path", "_quote_include_kind[dir]"),
]


def _norm_calls_on(fn, var_decl, before=None):
    """Names of Filename normalisers applied to local var_decl (in order)."""
    out = []
    for n in fn.walk():
        if n.get("k") == "call" and "this" in n and callee_short(n) in ("make_canonical", "make_absolute", "standardize", "make_true_case"):
            r = local_ref(n["this"])
            if r is not None and r.get("d") == var_decl:
                out.append((callee_short(n), n))
    return out


def run(ctx):
    db = ctx.db
    ctx.rule("R17.1", "find_include probes cwd (S_local), includer's directory (S_alternate), -S path for <> (S_system), then -I/-S path in order with the recorded kind; never cwd/includer for <>; `<>` is angle mode iff !_noangles; a miss only warns")
    ctx.rule("R17.2", "-I appends to the quote path with kind S_alternate; -S appends to the angle path and to the quote path with kind S_system; one kind per appended directory")
    ctx.rule("R17.4", "names are canonicalised before they key _parsed_files/_explicit_files; insert and lookup of _explicit_files use the same normaliser; CPPFile orders on _filename only")

    fi = db.fn("CPPPreprocessor::find_include")
    cfg = fi.cfg
    angle = [p for p in fi.params if p["t"] == "bool"]
    if not angle:
        ctx.broken("find_include: bool angle_quotes parameter not found")
    ad = angle[0]["d"]
    rets = [n for n in fi.walk() if n.get("k") == "ret" and const_int(n.get("e")) == 1]
    rets.sort(key=lambda n: fi.line_of(n))
    e_angle_true = G.edges_where(fi, G.local_true(ad))
    e_angle_false = G.edges_where(fi, lambda atom, truth: (local_ref(atom) or {}).get("d") == ad and not truth)
    seq = []
    probes = []
    for r in rets:
        needs_angle = G.gated(fi, r, e_angle_true)
        needs_not = G.gated(fi, r, e_angle_false)
        # probe: the exists()/is_regular_file()/resolve_filename() call whose true edge gates this return, nearest
        best = None
        for n in fi.walk():
            if n.get("k") == "call" and callee_short(n) in ("exists", "is_regular_file", "resolve_filename") and "this" in n:
                def this_probe(atom, truth, n=n):
                    return atom is n and truth
                if G.gated(fi, r, G.edges_where(fi, this_probe)):
                    if best is None or fi.line_of(n) > fi.line_of(best):
                        best = n
        kind = "?"
        if best is not None:
            obj = peel(best["this"])
            if callee_short(best) == "resolve_filename":
                arg = field_of(best["a"][0]) or ""
                kind = "angle-path" if arg.endswith("_angle_include_path") else ("quote-path" if arg.endswith("_quote_include_path") else "?")
            else:
                lr = local_ref(obj)
                if lr is not None and lr.get("dk") == "param":
                    kind = "as-given"
                elif lr is not None:
                    # how was the local constructed?
                    for x in fi.walk():
                        if x.get("k") == "decls":
                            for d in x["d"]:
                                if d.get("d") == lr.get("d") and "init" in d:
                                    s = show(d["init"])
                                    if "get_dirname" in s and "get_file" in s:
                                        # the directory the including file really lives in: dirname of CPPFile::_filename
                                        # (the located path), not of _filename_as_referenced (its spelling in the #include)
                                        dn = [c for c in walk(d["init"]) if c.get("k") == "call" and callee_short(c) == "get_dirname" and "this" in c]
                                        flds = {(field_of(c["this"]) or "?").split("::")[-1] for c in dn}
                                        kind = "includer-dir" if flds == {"_filename"} else "includer-dir-of-%s" % "/".join(sorted(flds))
                                    elif "_quote_include_path" in s and "get_directory" in s:
                                        kind = "quote-path"
                                    elif "_angle_include_path" in s:
                                        kind = "angle-path-manual"
        # ownership label assigned in the return's block
        label = None
        rb = cfg.locate(r)[0]
        for e in cfg.blocks[rb].elems:
            n = fi.nodes.get(e)
            t = assigned_target(n) if n is not None else None
            if t and (local_ref(t[0]) or {}).get("dk") == "param" and "Source" in (local_ref(t[0]) or {}).get("t", ""):
                v = strip_casts(t[1])
                label = v["n"].split("::")[-1] if v.get("k") == "ref" else show(v)
        seq.append((True if needs_angle else (False if needs_not else None), kind, label))
        probes.append(best)
    for i, want in enumerate(REFERENCE):
        got = seq[i] if i < len(seq) else None
        ctx.ob("R17.1", "find_include|probe#%d|%s" % (i, want[1]), got == want, fi.loc(rets[i]) if i < len(rets) else fi.loc(),
               "probe %d is %s, documented %s  (angle?, where, ownership)" % (i, got, want))
    ctx.ob("R17.1", "find_include|no-extra-probe", len(seq) == len(REFERENCE), fi.loc(), "%d successful-return sites, documented %d" % (len(seq), len(REFERENCE)))
    # the <> form may take the name as given only when it is not a local name: `#include <x.h>` never finds ./x.h
    for i, (ang, kind, _) in enumerate(seq):
        if ang is True and kind == "as-given":
            nl = G.edges_where(fi, lambda atom, truth: atom is not None and atom.get("k") == "call" and callee_short(atom) == "is_local" and "this" in atom and
                               (local_ref(atom["this"]) or {}).get("dk") == "param" and not truth)
            ok = bool(nl) and G.gated(fi, rets[i], nl)
            ctx.ob("R17.1", "find_include|probe#%d|angle-as-given-only-if-not-local" % i, ok, fi.loc(rets[i]),
                   "for <> the name is tried as given %s where is_local() is false" % ("only" if ok else "ALSO"))
    # no lookup is delegated to DSearchPath (find_file()/resolve_filename(): satisfied by a directory; empty path = ".")
    deleg = [c for c in fi.walk() if c.get("k") == "call" and callee_short(c) in ("resolve_filename", "find_file", "find_all_files")]
    ctx.ob("R17.1", "find_include|no-DSearchPath-lookup", not deleg, fi.loc(deleg[0]) if deleg else fi.loc(),
           "find_include walks the directories itself" if not deleg else "a lookup is left to DSearchPath, which accepts a directory and reads an empty path as \".\"")
    # R17.7: a probe made by find_include itself must not be satisfied by a directory (F-C17b: a directory `vector` in the
    # working directory shadowed inc/vector; the "file" was opened, yielded nothing, and no warning was printed)
    ctx.rule("R17.7", "the probes find_include makes itself (cwd, includer's directory, each -I/-S directory) ask for a regular file: is_regular_file(), or exists() together with !is_directory()")
    n7 = 0
    for i, b in enumerate(probes):
        if b is None or callee_short(b) == "resolve_filename":
            continue
        n7 += 1
        ok7 = callee_short(b) == "is_regular_file"
        if not ok7:
            obj = show(b["this"])
            nd = G.edges_where(fi, lambda atom, truth, obj=obj: atom is not None and atom.get("k") == "call" and callee_short(atom) == "is_directory" and show(atom.get("this")) == obj and not truth)
            ok7 = bool(nd) and G.gated(fi, rets[i], nd)
        ctx.ob("R17.7", "find_include|probe#%d|%s|not-a-directory" % (i, seq[i][1]), ok7, fi.loc(b), "probe `%s` %s a directory" % (show(b)[:40], "cannot be satisfied by" if ok7 else "is satisfied by"))
    ctx.floor("R17.7", "direct probes in find_include", n7, 5)
    # order: a later probe of the same mode is reached only after the earlier one failed
    for i in range(len(rets)):
        for j in range(i + 1, len(rets)):
            if i < len(seq) and j < len(seq) and seq[i][0] == seq[j][0] and probes[i] is not None:
                pi = probes[i]

                def failed(atom, truth, pi=pi):
                    if atom is pi and not truth:
                        return True
                    # `!x.is_directory() && x.exists()`: the probe also fails when x is a directory
                    return atom is not None and atom.get("k") == "call" and callee_short(atom) == "is_directory" and "this" in atom and "this" in pi \
                        and show(atom["this"]) == show(pi["this"]) and truth
                # both probes need the same angle mode: exclude the other mode's (infeasible) paths
                mode_cut = e_angle_true if seq[j][0] is False else (e_angle_false if seq[j][0] is True else [])
                if seq[i][0] is True and seq[i][1] == "as-given":
                    # the <> as-given probe exists for non-local names only; for a local name it does not apply (it has not "failed")
                    mode_cut = mode_cut + G.edges_where(fi, lambda atom, truth: atom is not None and atom.get("k") == "call" and callee_short(atom) == "is_local" and truth)
                ok = G.gated(fi, rets[j], G.edges_where(fi, failed) + mode_cut)
                ctx.ob("R17.1", "find_include|order|%s-before-%s" % (seq[i][1], seq[j][1]), ok, fi.loc(rets[j]),
                       "%s is tried only after %s failed" % (seq[j][1], seq[i][1]))
    # the quote-path loop is ascending from 0 and indexes kind by the same variable
    loops = [n for n in fi.walk() if n.get("k") == "for"]
    ok = False
    for lp in loops:
        init = lp.get("init")
        var = None
        if init is not None and init.get("k") == "decls" and init["d"] and "init" in init["d"][0] and const_int(init["d"][0]["init"]) == 0:
            var = init["d"][0]["d"]
        inc = peel(lp.get("inc")) if lp.get("inc") else None
        asc = inc is not None and inc.get("k") == "un" and "++" in inc.get("op", "") and (local_ref(inc["e"]) or {}).get("d") == var
        uses = [x for x in walk(lp["body"]) if (x.get("k") == "call" and callee_short(x) in ("get_directory", "operator[]"))]
        idx_ok = len(uses) >= 2 and all(any((local_ref(a) or {}).get("d") == var for a in u.get("a", [])) for u in uses)
        if var and asc and idx_ok:
            ok = True
        if any(callee_short(u) == "get_directory" for u in uses):
            one = bool(var) and asc and all(any((local_ref(a) or {}).get("d") == var for a in u.get("a", [])) for u in uses)
            ctx.ob("R17.1", "find_include|directory-loop@%s|ascending-from-0" % fi.loc(lp).split(":")[-1], one, fi.loc(lp),
                   "directories are tried in command-line order")
    ctx.ob("R17.1", "find_include|quote-path-loop-ascending-same-index", ok, fi.loc(loops[0]) if loops else fi.loc(),
           "the -I/-S loop runs dir = 0.. ascending and reads directory and kind with the same index")

    hi = db.fn("CPPPreprocessor::handle_include_directive")
    # angle_quotes = true only behind !_noangles
    aq = None
    for n in hi.walk():
        if n.get("k") == "decls":
            for d in n["d"]:
                if d.get("ct") == "bool" and "init" in d and const_int(d["init"]) == 0:
                    aq = d
    sets = []
    for n in hi.walk():
        t = assigned_target(n)
        if t and aq and (local_ref(t[0]) or {}).get("d") == aq["d"] and const_int(t[1]) == 1:
            sets.append(n)
    noang_false = G.edges_where(hi, lambda atom, truth: (field_of(atom) or "").endswith("_noangles") and not truth)
    ok = bool(sets) and all(G.gated(hi, s, noang_false) for s in sets)
    ctx.ob("R17.1", "handle_include_directive|angle-iff-not-noangles", ok, hi.loc(sets[0]) if sets else hi.loc(),
           "angle_quotes = true only on the !_noangles edge")
    # and it is this flag that is passed to find_include
    fc = [c for c in hi.calls("CPPPreprocessor::find_include")]
    ok = len(fc) == 1 and aq is not None and (local_ref(fc[0]["a"][1]) or {}).get("d") == aq["d"]
    ctx.ob("R17.1", "handle_include_directive|passes-angle-flag", ok, hi.loc(fc[0]) if fc else hi.loc(), "find_include(filename, angle_quotes, source)")
    # a miss only warns
    if fc:
        def miss(atom, truth):
            return atom is fc[0] and not truth
        e = G.edges_where(hi, miss)
        hcfg = hi.cfg
        ok = False
        bad = []
        for (b, idx) in e:
            s = hcfg.blocks[b].succs[idx]
            for bid in hcfg.reachable(s):
                for el in hcfg.blocks[bid].elems:
                    n = hi.nodes.get(el)
                    if n is not None and n.get("k") == "call":
                        if callee_short(n) == "warning":
                            ok = True
                        if callee_short(n) in ("error", "exit", "abort"):
                            bad.append(n)
        ctx.ob("R17.1", "handle_include_directive|miss-only-warns", ok and not bad, hi.loc(fc[0]), "a file that cannot be found produces a warning, not an error")

    # ------------------------------------------------------------ R17.2
    for fname in ("interrogate.cxx", "parse_file.cxx"):
        fn = db.fn("main", file_contains="/interrogate/" + fname)
        cfg = fn.cfg
        appends = [c for c in fn.walk() if c.get("k") == "call" and callee_short(c) in ("append_directory", "prepend_directory", "append_path", "prepend_path") and "this" in c]
        pushes = [c for c in fn.walk() if c.get("k") == "call" and callee_short(c) in ("push_back", "insert", "emplace_back") and (field_of(c.get("this")) or "").endswith("_quote_include_kind")]
        by_block = {}
        for c in appends:
            by_block.setdefault(cfg.locate(c)[0], {"app": [], "push": []})["app"].append(c)
        for c in pushes:
            by_block.setdefault(cfg.locate(c)[0], {"app": [], "push": []})["push"].append(c)
        seen = set()
        for bid, ev in by_block.items():
            quote = [c for c in ev["app"] if (field_of(c["this"]) or "").endswith("_quote_include_path")]
            ang = [c for c in ev["app"] if (field_of(c["this"]) or "").endswith("_angle_include_path")]
            # which option is this?  label of the switch edge into the block
            opt = None
            for b, idx, s in cfg.edges():
                if s == bid:
                    lab = cfg.edge_label(b, idx)
                    if isinstance(lab, tuple):
                        opt = "".join(chr(v) for v in lab[1:] if isinstance(v, int) and 32 < v < 127)
            kinds = [strip_casts(c["a"][0]).get("n", "").split("::")[-1] for c in ev["push"] if c.get("a")]
            if not quote and not ang and not ev["push"]:
                continue
            seen.add(opt)
            ok_pair = len(quote) == len(ev["push"]) and all(callee_short(c) == "append_directory" for c in ev["app"])
            ctx.ob("R17.2", "%s|-%s|one-kind-per-directory" % (fname, opt), ok_pair, fn.loc((quote or ang or ev["push"])[0]),
                   "%d append(s) to the quote path, %d kind entr(y/ies), all appends (not prepends): %s" % (len(quote), len(ev["push"]), ok_pair))
            if opt == "I":
                ctx.ob("R17.2", "%s|-I|quote-path-alternate" % fname, len(quote) == 1 and not ang and kinds == ["S_alternate"], fn.loc(quote[0]) if quote else fn.loc(),
                       "-I: quote path += dir with kind %s, angle path untouched: %s" % (kinds, not ang))
            elif opt == "S":
                same = len(quote) == 1 and len(ang) == 1 and show(quote[0]["a"][0]) == show(ang[0]["a"][0])
                ctx.ob("R17.2", "%s|-S|both-paths-system" % fname, same and kinds == ["S_system"], fn.loc(quote[0]) if quote else fn.loc(),
                       "-S: the same directory goes to the angle path and the quote path, kind %s" % kinds)
            else:
                ctx.ob("R17.2", "%s|-%s|unexpected-path-writer" % (fname, opt), False, fn.loc((quote or ang or ev["push"])[0]), "include paths modified outside -I/-S")
        ctx.ob("R17.2", "%s|options-present" % fname, {"I", "S"} <= seen, fn.loc(), "both -I and -S handled (%s)" % sorted(x for x in seen if x))
    # nobody else appends to the paths
    for f in db.functions:
        if f.name == "main":
            continue
        for c in f.walk():
            if c.get("k") == "call" and callee_short(c) in ("append_directory", "prepend_directory", "append_path", "prepend_path", "push_back", "insert") and "this" in c:
                fld = field_of(c["this"]) or ""
                if fld.endswith(("CPPPreprocessor::_quote_include_path", "CPPPreprocessor::_angle_include_path", "CPPPreprocessor::_quote_include_kind")):
                    ctx.ob("R17.2", "other-writer|%s" % f.name, False, f.loc(c), "%s modifies %s" % (f.name, fld))

    # ------------------------------------------------------------ R17.4
    # handle_include_directive: make_canonical() on the found name dominates the three uses
    fname_local = None
    if fc:
        fname_local = local_ref(fc[0]["a"][0])
    canon = [c for c in hi.walk() if c.get("k") == "call" and callee_short(c) == "make_canonical" and "this" in c and fname_local is not None
             and (local_ref(c["this"]) or {}).get("d") == fname_local.get("d")]
    uses = []
    for n in hi.walk():
        if n.get("k") == "call" and callee_short(n) in ("count", "find") and (field_of(n.get("this")) or "").endswith(("_explicit_files", "_parsed_files")):
            uses.append(n)
        if n.get("k") == "ctor" and n.get("f", "").startswith("CPPFile::CPPFile") and len(n.get("a", [])) >= 2:
            uses.append(n)
    ctx.floor("R17.4", "uses of the found name as a key", len(uses), 3)
    hcfg = hi.cfg
    dom = hcfg.dominators()
    for u in uses:
        ul = hcfg.locate(u)
        ok = False
        for c in canon:
            cl = hcfg.locate(c)
            if cl[0] == ul[0]:
                ok = ok or cl[1] < ul[1]
            elif cl[0] in dom.get(ul[0], ()):
                ok = True
        what = callee_short(u) if u["k"] == "call" else "CPPFile()"
        tgt = (field_of(u.get("this")) or "").split("::")[-1] if u["k"] == "call" else ""
        ctx.ob("R17.4", "handle_include_directive|canonical-before|%s%s" % (tgt + "." if tgt else "", what), ok, hi.loc(u),
               "%s uses the name %s make_canonical()" % (show(u)[:60], "after" if ok else "WITHOUT a dominating"))
    # command-line files: canonicalise before constructing their CPPFile
    for name in ("CPPParser::parse_file", "CPPPreprocessor::preprocess_file"):
        f = db.fn(name)
        ctors = [n for n in f.walk() if n.get("k") == "ctor" and n.get("f", "").startswith("CPPFile::CPPFile") and len(n.get("a", [])) >= 3]
        ok = False
        if ctors:
            key = local_ref(ctors[0]["a"][0])
            if key is not None:
                calls = _norm_calls_on(f, key["d"])
                canon_calls = [n for nm, n in calls if nm == "make_canonical"]
                # the canonicalisation is on EVERY path from the key's definition to the CPPFile (S11-C17: it was put under
                # `if (canonical.is_local())`, so an absolute but non-canonical command-line spelling keyed _parsed_files raw)
                defs = [y for y in f.walk() if y.get("k") == "decls" and any(dd.get("d") == key["d"] for dd in y["d"])]
                ok = bool(canon_calls) and bool(defs) and not G.reaches_avoiding(f, defs[0], canon_calls, ctors[0])
        ctx.ob("R17.4", "%s|canonical-key" % name, ok, f.loc(ctors[0]) if ctors else f.loc(), "the CPPFile key is canonicalised before use")
    # CPPFile ordering on _filename only
    for op in ("operator<", "operator=="):
        f = db.fn("CPPFile::" + op)
        mems = {n["n"].split("::")[-1] for n in f.walk() if n.get("k") == "mem"}
        ctx.ob("R17.4", "CPPFile::%s|filename-only" % op, mems == {"_filename"}, f.loc(), "compares %s" % sorted(mems))
    # #pragma once marks the entry found by the current file
    # _explicit_files: normaliser agreement between insertion and lookup
    ins_norm, look_norm = [], []
    sites = []
    for f in db.functions:
        for n in f.walk():
            if n.get("k") == "call" and "this" in n and (field_of(n["this"]) or "").endswith("_explicit_files"):
                short = callee_short(n)
                if short in ("insert", "emplace", "count", "find") and n.get("a"):
                    key = local_ref(n["a"][0])
                    norms = []
                    if key is not None:
                        norms = [nm for nm, c in _norm_calls_on(f, key["d"]) if f.line_of(c) <= f.line_of(n)]
                    (ins_norm if short in ("insert", "emplace") else look_norm).append((f, n, norms))
    ctx.floor("R17.4", "_explicit_files insert/lookup sites", len(ins_norm) + len(look_norm), 2)
    # R17.5: a command-line file that an earlier command-line file #includes must already count as the user's own
    # when it is first reached, or its include guard keeps it from ever being read as such
    ctx.rule("R17.5", "every command-line file is registered in _explicit_files before the first file is parsed: no _explicit_files.insert is reachable from a parse_file() call in the tools' main")
    n5 = 0
    for f, n, norms in ins_norm:
        cfg = f.cfg
        parses = [c for c in f.walk() if c.get("k") == "call" and callee_short(c) == "parse_file"]
        if not parses:
            continue
        n5 += 1
        li = cfg.locate(n)
        bad = None
        for pc in parses:
            lp = cfg.locate(pc)
            if lp is None or li is None:
                continue
            seen = set()
            for s0 in cfg.blocks[lp[0]].succs:
                if s0 is not None:
                    seen |= cfg.reachable(s0)
            if li[0] in seen or (li[0] == lp[0] and li[1] > lp[1]):
                bad = pc
        ctx.ob("R17.5", "%s|registered-before-any-parse" % f.name.split("::")[-1] if "::" in f.name else "%s|registered-before-any-parse" % (f.file.split("/")[-1] + "::" + f.name), bad is None, f.loc(n),
               "_explicit_files.insert is %sreachable after a parse_file() call" % ("not " if bad is None else ""))
    ctx.floor("R17.5", "tools that register command-line files", n5, 1)
    want = None
    for f, n, norms in look_norm:
        want = norms[-1] if norms else None
    for f, n, norms in ins_norm:
        got = norms[-1] if norms else None
        ctx.ob("R17.4", "_explicit_files|insert-normaliser|%s" % f.name, got == want and want is not None, f.loc(n),
               "keys are inserted after %s() but looked up after %s(): a path through a symlink (or otherwise non-canonical spelling) never matches" % (got, want)
               if got != want else "inserted and looked-up keys both go through %s()" % want)
    canonical_whole_name(ctx)
    dotdot_does_not_cancel_dotdot(ctx)
    search_directories_absolute_before_chdir(ctx)
    named_files_are_the_users_own(ctx)

def canonical_whole_name(ctx):
    """R17.6: once-only inclusion and `is this a command-line file` compare canonical names.  Two spellings of one file
    are equal only if make_canonical() resolves the WHOLE name through realpath(): resolving the directory alone leaves
    a header that is itself a symbolic link under its own name."""
    db = ctx.db
    ctx.rule("R17.6", "Filename::make_canonical() passes the whole file name (c_str() of *this) to realpath(), and takes the result as the new name")
    f = db.fn("Filename::make_canonical")
    calls = [c for c in f.walk() if c.get("k") == "call" and callee_short(c) == "realpath"]
    if not calls:
        ctx.broken("make_canonical: no realpath() call (other platform branch compiled?)")
    for c in calls:
        a0 = strip_casts(peel(c["a"][0])) if c.get("a") else None
        whole = a0 is not None and a0.get("k") == "call" and callee_short(a0) == "c_str" and "this" in a0 and (strip_casts(peel(a0["this"])) or {}).get("k") in ("this", "un")
        if whole:
            t = strip_casts(peel(a0["this"]))
            whole = t.get("k") == "this" or (t.get("k") == "un" and (strip_casts(peel(t.get("e"))) or {}).get("k") == "this")
        ctx.ob("R17.6", "make_canonical|realpath-of-whole-name", bool(whole), f.loc(c), "realpath(%s, ...)" % (show(a0)[:40] if a0 is not None else "?"))



def dotdot_does_not_cancel_dotdot(ctx):
    """R17.8: Filename::standardize() backs up over `name/..`.  Backing up is only right over a NAME: `../..` must stay
    two levels up (a second `..` must not cancel the first), and nothing can be popped from an empty list.  With the test
    gone `../../inc/x.h` becomes `inc/x.h` - another file - and the working-directory probe for such an include misses.
    (Seed S7-C17.)"""
    db = ctx.db
    ctx.rule("R17.8", "in Filename::standardize every components.pop_back() is behind `!components.empty()` and behind `components.back() != \"..\"`")
    f = db.fn("Filename::standardize")
    comp = None
    for y in f.walk():
        if y.get("k") == "decls":
            for d in y["d"]:
                if "vector" in (d.get("ct") or d.get("t") or "") and d["n"].startswith("component"):
                    comp = d
    if comp is None:
        ctx.broken("R17.8: the component list of Filename::standardize was not found")
    pops = [c for c in f.walk() if c.get("k") == "call" and callee_short(c) == "pop_back" and (local_ref(c.get("this")) or {}).get("d") == comp["d"]]

    def nonempty(atom, truth):
        return atom is not None and atom.get("k") == "call" and callee_short(atom) == "empty" and (local_ref(atom.get("this")) or {}).get("d") == comp["d"] and not truth

    def back_is_not_dotdot(atom, truth):
        if atom is None or atom.get("k") != "call" or callee_short(atom) not in ("operator==", "operator!="):
            return False
        args = atom.get("a", [])
        if "this" in atom:
            args = [atom["this"]] + list(args)
        if len(args) != 2:
            return False
        has_back = any((strip_casts(peel(a)) or {}).get("k") == "call" and callee_short(strip_casts(peel(a))) == "back"
                       and (local_ref(strip_casts(peel(a)).get("this")) or {}).get("d") == comp["d"] for a in args)
        has_lit = any(any(z.get("k") == "str" and z.get("v") == ".." for z in walk(a)) for a in args)
        if not (has_back and has_lit):
            return False
        eq = callee_short(atom) == "operator=="
        return (eq and not truth) or (not eq and truth)
    e1 = G.edges_where(f, nonempty)
    e2 = G.edges_where(f, back_is_not_dotdot)
    for i, c in enumerate(pops):
        ctx.ob("R17.8", "standardize|pop_back#%d|list-not-empty" % i, bool(e1) and G.gated(f, c, e1), f.loc(c), "pop_back() behind !components.empty()")
        ok = bool(e2) and G.gated(f, c, e2)
        ctx.ob("R17.8", "standardize|pop_back#%d|previous-is-not-dotdot" % i, ok, f.loc(c),
               "pop_back() is %sbehind `components.back() != \"..\"`" % ("" if ok else "NOT "))
    ctx.floor("R17.8", "pop_back sites in standardize", len(pops), 2)


_reaches_avoiding = G.reaches_avoiding


def search_directories_absolute_before_chdir(ctx):
    """R17.9: interrogate's main changes directory (-srcdir) AFTER the options were read.  A directory given with -I/-S is
    looked up later, from the new working directory: it names the directory the user meant only if it was made absolute
    while the old working directory was still current.  Each search path has its own copy of the name, so each append
    needs it.  (Seed S8-C17: make_absolute() moved below the first of two append_directory() calls.)"""
    db = ctx.db
    ctx.rule("R17.9", "in a function that calls Filename::chdir(), every append_directory(v)/append_path(v) is reached from each assignment of v only through v.make_absolute()")
    n = 0
    for f in db.functions:
        if not f.file.endswith(("interrogate.cxx", "interrogate_module.cxx", "parse_file.cxx")):
            continue
        if not any(c.get("k") == "call" and c.get("f") == "Filename::chdir" for c in f.walk()):
            continue
        for c in f.walk():
            if not (c.get("k") == "call" and callee_short(c) in ("append_directory", "prepend_directory", "append_path", "prepend_path") and "this" in c and c.get("a")):
                continue
            n += 1
            r = local_ref(c["a"][0])
            path = show(c["this"])
            if r is None:
                ctx.ob("R17.9", "%s|%s(%s)|absolute-before-chdir" % (f.name, path, show(c["a"][0]).replace(" ", "")), False, f.loc(c),
                       "the directory appended is not a local Filename that was made absolute")
                continue
            d = r["d"]
            srcs = [y for y in f.walk() if (assigned_target(y) and (local_ref(assigned_target(y)[0]) or {}).get("d") == d) or
                    (y.get("k") == "call" and callee_short(y) == "operator=" and y.get("a") and (local_ref(y["a"][0]) or {}).get("d") == d)]
            for y in f.walk():
                if y.get("k") == "decls":
                    for dd in y["d"]:
                        if dd.get("d") == d:
                            srcs.append(y)
            via = [y for y in f.walk() if y.get("k") == "call" and callee_short(y) == "make_absolute" and "this" in y and (local_ref(y["this"]) or {}).get("d") == d]
            bad = [y for y in srcs if _reaches_avoiding(f, y, via, c)]
            ctx.ob("R17.9", "%s|%s.%s(%s)|absolute-before-chdir" % (f.name, path, callee_short(c), r.get("n")), not bad and bool(srcs), f.loc(c),
                   "`%s` is made absolute between each of its %d assignment(s) and this append" % (r.get("n"), len(srcs)) if not bad else
                   "`%s` reaches this append as it was spelled on the command line (assignment at %s), but main() changes directory before the path is used" % (r.get("n"), f.loc(bad[0])))
    ctx.floor("R17.9", "search-path appends in a main() that changes directory", n, 3)
    # ... and the directory changes only after the last of them: once chdir() has run, a make_absolute() would resolve
    # against the source directory (S9-C17: the chdir moved into the -srcdir arm of the option loop, so every -I/-S written
    # after -srcdir was resolved there, and the same options in another order searched other directories)
    m = 0
    for f in db.functions:
        if not f.file.endswith(("interrogate.cxx", "interrogate_module.cxx", "parse_file.cxx")):
            continue
        chd = [c for c in f.walk() if c.get("k") == "call" and c.get("f") == "Filename::chdir"]
        if not chd:
            continue
        mks = [c for c in f.walk() if c.get("k") == "call" and callee_short(c) == "make_absolute" and "this" in c]
        for c in chd:
            m += 1
            later = [k for k in mks if G.reaches_avoiding(f, c, [], k)]
            ctx.ob("R17.9", "%s|chdir|after-every-make_absolute" % f.name, not later, f.loc(c),
                   "no make_absolute() can run after the directory was changed" if not later else
                   "after chdir(), make_absolute() at %s still runs: that path is resolved against the new directory" % f.loc(later[0]))
    ctx.floor("R17.9", "chdir() calls judged", m, 1)


def named_files_are_the_users_own(ctx):
    """R17.10: "a file is the user's own exactly when it is named on the command line or found in the working directory".
    The first half is one statement in handle_include_directive(): after the lookup, `_explicit_files.count(filename)`
    overrides whatever ownership the lookup gave - also S_system, because a named header is often reached FIRST through an
    earlier file's `#include <x>` and a -S directory, and its include guard then blanks the later top-level parse.  The
    override may depend on nothing but the membership test.  (Seed S10-C17: `source != S_system &&` added in front.)"""
    db = ctx.db
    ctx.rule("R17.10", "in handle_include_directive, `source = S_local` for a file in _explicit_files is reached whenever the membership test is true: no other condition stands between a found file and that test")
    fs = [g for g in db.functions if g.name == "CPPPreprocessor::handle_include_directive"]
    if not fs:
        ctx.broken("R17.10: handle_include_directive not found")
        return
    f = fs[0]
    n = 0
    for y in f.walk():
        t = assigned_target(y)
        if not t:
            continue
        v = strip_casts(peel(t[1]))
        if not (v is not None and v.get("k") == "ref" and (v.get("n") or "").endswith("S_local") and local_ref(t[0]) is not None):
            continue
        conds = []
        for a in f.ancestors(y):
            if a.get("k") == "if" and any(z is y for z in walk(a.get("then") or {})):
                c0 = strip_casts(peel(a["c"]))
                stack = [c0]
                while stack:
                    c1 = stack.pop()
                    if c1 is not None and c1.get("k") == "bin" and c1.get("op") == "&&":
                        stack += [strip_casts(peel(c1["x"])), strip_casts(peel(c1["y"]))]
                    else:
                        conds.append(c1)
        member = [c for c in conds if c is not None and any(z.get("k") == "call" and callee_short(z) in ("count", "find") and (field_of(z.get("this")) or "").endswith("_explicit_files") for z in walk(c))]
        if not member:
            continue
        n += 1
        found = [c for c in conds if c is not None and any(z.get("k") == "call" and callee_short(z) == "find_include" for z in walk(c))]
        extra = [c for c in conds if c not in member and c not in found]
        ctx.ob("R17.10", "handle_include_directive|source=S_local|named-on-the-command-line", not extra, f.loc(y),
               "a found file that is in _explicit_files is the user's own, whatever the lookup said" if not extra else
               "the override also requires `%s`" % show(extra[0])[:60])
    ctx.floor("R17.10", "ownership overrides for named files", n, 1)
