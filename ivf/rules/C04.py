"""C04 — only the published API of the files named on the command line is exported.

Decided (the gates): every route by which a declaration becomes a database
entry passes the source-file gate, the visibility gate and the signature gates,
with the comparison the right way round; the gate inputs (min_vis,
CPPFile::S_local) can only take the values the statement allows; the gate
predicates recurse through every type wrapper; the .N command table feeds the
sets its predicates read.
Not decided: that the parser stamped the right _vis on each declaration, nor the
"appear only when an exported signature refers to them" recursion.
"""
from ..facts import peel, strip_casts, show, walk, cond_atom
from .common import (callee_short, field_of, base_of, deref, assigned_target, const_int,
                     local_ref, enclosing_loops, loop_container)
from . import gates as G

LEVEL = "proof"
EXPLANATION = ("Gated reachability of every export sink in the scan_*/define_* functions of InterrogateBuilder (file, visibility, "
               "deleted/static, involves_*, ignore* gates, with flag propagation), sibling completeness of the involves_* predicates, "
               "who-may-write the gate inputs, and the .N command table.")
TRUSTED = ["clang 14 AST/CFG", "the parser stamps _vis and CPPFile::_source correctly (C06/C17 territory)"]
ASSUMPTIONS = ["the two documented force_publish cases (public static get_class_type, public destructor) are intended behaviour",
               "typedefs are exported without a visibility gate on the typedef itself (documented in scan_typedef_type)"]

B = "InterrogateBuilder::"
SIG_PREDS = ["involves_protected", "in_ignoreinvolved", "involves_rvalue_reference"]


def _calls(fn, short, pred=None):
    out = []
    for n in fn.walk():
        if n.get("k") == "call" and callee_short(n) == short and (pred is None or pred(n)):
            out.append(n)
    return out


def _is_true_arg(n, idx):
    a = n.get("a", [])
    return len(a) > idx and const_int(a[idx]) == 1


def _param(fn, i):
    return fn.params[i]["d"]


def _check_gate(ctx, rule, fn, sink, sink_name, gate_name, gate, bypass=(), why=""):
    """gate and bypass are fact predicates (atom, truth) -> bool."""
    e2, flags = G.gate_edges(fn, gate, *bypass)
    ok = G.gated(fn, sink, e2)
    inst = "%s|%s|%s" % (fn.name.replace(B, ""), sink_name, gate_name)
    ctx.ob(rule, inst, ok, fn.loc(sink),
           "%s is %s by the %s gate%s%s" % (sink_name, "dominated" if ok else "REACHABLE without passing", gate_name,
                                           (" (through flag %s)" % ",".join(flags)) if flags and ok else "", why))
    return ok


def run(ctx):
    db = ctx.db
    # the legality tests read attributes (reference category, constness, ...) off resolved types: a type that is rebuilt
    # while being resolved must keep them
    from .C06 import rebuild_rules
    rebuild_rules(ctx, "R04.7", only_types=True)
    _ignorefile_keys(ctx)
    _transparent_wrappers(ctx)
    ctx.rule("R04.1", "every export sink of a scan_* function is unreachable once the edges establishing `file is S_local` / `_vis <= min_vis` are removed")
    ctx.rule("R04.2", "member export in define_struct_type/define_method (and free functions in scan_function) is behind the file, deleted/static, visibility and involves_*/ignore* gates; force_publish only for the two documented public cases")
    ctx.rule("R04.3", "involves_unpublished/involves_protected/involves_rvalue_reference/in_ignoreinvolved recurse through const, reference, pointer, typedef and function (return + parameters) wrappers")
    ctx.rule("R04.4", "min_vis is written only by its initialiser (V_published) and under -promiscuous (V_public); the enumerator S_local is stored only for command-line files, the cwd probe and explicit files")
    ctx.rule("R04.5", "each ignore*/forcetype command inserts into the member its predicate reads")

    n_gate = 0
    file_local = G.source_is_local()
    vis_min = G.vis_le("min_vis")
    vis_pub = G.vis_le("V_public")

    # ------------------------------------------------------------ R04.1
    def scan(name, sig, sink_short, sink_pred, gates_wanted, bypass_fn=None):
        nonlocal n_gate
        fn = db.fn(B + name, sig_contains=sig)
        sinks = _calls(fn, sink_short, sink_pred)
        if not sinks:
            ctx.broken("%s: export sink %s not found" % (name, sink_short))
        for s in sinks:
            for gname, holds in gates_wanted:
                bypass = bypass_fn(fn, gname) if bypass_fn else []
                n_gate += 1
                _check_gate(ctx, "R04.1", fn, s, sink_short, gname, holds, bypass)
        return fn

    # a function that lives in a class scope is a member defined out of line: its access is decided with its class
    # (define_method), never by the global scope's publish state (S8-C04: such a definition without a leading comment
    # fell through to the global export, private methods included)
    _sf = db.fn(B + "scan_function", sig_contains="CPPInstance")
    _owner_locals = set()
    for y in _sf.walk():
        if y.get("k") == "decls":
            for dd in y["d"]:
                i0 = strip_casts(peel(dd.get("init"))) if dd.get("init") is not None else None
                if i0 is not None and i0.get("k") == "call" and callee_short(i0) == "get_struct_type" and \
                   not any(assigned_target(w) and (local_ref(assigned_target(w)[0]) or {}).get("d") == dd["d"] for w in _sf.walk()):
                    _owner_locals.add(dd["d"])

    def _is_owner(u):
        u = strip_casts(peel(u)) if u is not None else None
        return u is not None and ((u.get("k") == "call" and callee_short(u) == "get_struct_type") or (local_ref(u) or {}).get("d") in _owner_locals)

    def not_a_member(atom, truth):
        a = strip_casts(peel(atom)) if atom is not None else None
        if a is not None and a.get("k") == "call" and callee_short(a) == "is_scoped":
            return not truth
        ca = G.cmp_atom(atom)
        if ca:
            op, x, y = ca
            op = op if truth else G.NEG[op]
            for u, v in ((x, y), (y, x)):
                if _is_owner(u) and v is not None and (strip_casts(peel(v)) or {}).get("k") == "nullp":
                    return op == "=="
        if _is_owner(a):
            return not truth
        return False
    scan("scan_function", "CPPInstance", "get_function", None, [("file", file_local), ("vis", vis_min), ("not-a-member", not_a_member)])
    scan("scan_struct_type", "", "get_type", lambda n: _is_true_arg(n, 1), [("file", file_local), ("vis", vis_min)])
    scan("scan_enum_type", "", "get_type", lambda n: _is_true_arg(n, 1), [("file", file_local), ("vis", vis_min)])
    scan("scan_manifest", "", "add_manifest", None, [("file", file_local), ("vis", vis_min)])

    # scan_element: members are gated by their class (define_struct_type); file gate applies to globals
    def elem_bypass(fn, gname):
        if gname != "file":
            return []
        return [G.local_is_null(_param(fn, 1), null=False)]
    scan("scan_element", "", "add_element", None, [("file", file_local), ("vis", vis_min)], elem_bypass)

    # scan_typedef_type: file gate on the typedef itself; the wrapped struct is gated unless forced
    ft = db.fn(B + "scan_typedef_type")
    sinks = _calls(ft, "get_type", lambda n: _is_true_arg(n, 1))
    if not sinks:
        ctx.broken("scan_typedef_type: sink not found")
    p0 = _param(ft, 0)

    def own_file(atom, truth):
        if not file_local(atom, truth):
            return False
        return any(x.get("k") == "ref" and x.get("d") == p0 for x in walk(atom))

    def wrapped_file(atom, truth):
        if not file_local(atom, truth):
            return False
        return not any(x.get("k") == "ref" and x.get("d") == p0 for x in walk(atom))
    forced = None
    for n in ft.walk():
        if n.get("k") == "decls":
            for d in n["d"]:
                if d.get("ct") == "bool" and "init" in d and any(c.get("k") == "call" and callee_short(c) == "in_forcetype" for c in walk(d["init"])):
                    forced = d
    if forced is None:
        ctx.broken("scan_typedef_type: `forced` flag (initialised from in_forcetype) not found")
    forced_true = [G.local_true(forced["d"])]
    # forced may only be derived from in_forcetype()
    ok_forced = True
    for n in ft.walk():
        t = assigned_target(n)
        if t:
            l = local_ref(t[0])
            if l is not None and l.get("d") == forced["d"]:
                leaves = [x for x in walk(t[1]) if x.get("k") in ("call", "ref", "bool", "int")]
                for x in leaves:
                    if x.get("k") == "call" and callee_short(x) in ("in_forcetype", "get_local_name"):
                        continue
                    if x.get("k") == "ref" and (x.get("d") == forced["d"] or x.get("n") == "parser" or x.get("dk") in ("local", "param")):
                        continue
                    if x.get("k") in ("bool", "int") and const_int(x) == 0:
                        continue
                    ok_forced = False
    ctx.ob("R04.1", "scan_typedef_type|forced-only-from-in_forcetype", ok_forced, ft.loc(), "the bypass flag is derived only from in_forcetype(...)")
    for s in sinks:
        n_gate += 3
        _check_gate(ctx, "R04.1", ft, s, "get_type", "file", own_file)
        _check_gate(ctx, "R04.1", ft, s, "get_type", "wrapped-file", wrapped_file, forced_true, " (or the type is forcetype'd)")
        _check_gate(ctx, "R04.1", ft, s, "get_type", "wrapped-vis", vis_min, forced_true, " (or the type is forcetype'd)")
    ctx.floor("R04.1", "gate obligations", n_gate, 13)

    # ------------------------------------------------------------ R04.2
    fs = db.fn(B + "scan_function", sig_contains="CPPInstance")
    sink = _calls(fs, "get_function")[0]
    _check_gate(ctx, "R04.2", fs, sink, "get_function", "not-static-or-deleted",
                G.bits_clear("_storage_class", "SC_static", "SC_deleted"))
    for p in SIG_PREDS:
        _check_gate(ctx, "R04.2", fs, sink, "get_function", p, G.pred_false(p))

    fm = db.fn(B + "define_method", sig_contains="CPPInstance")
    msinks = _calls(fm, "get_function")
    if not msinks:
        ctx.broken("define_method: get_function sink not found")
    first = min(msinks, key=lambda n: fm.line_of(n))
    # the item-assignment sink further down is control dependent on the first one having succeeded
    _check_gate(ctx, "R04.2", fm, first, "get_function", "not-deleted", G.bits_clear("_storage_class", "SC_deleted"))
    for p in SIG_PREDS + ["in_ignoremember"]:
        _check_gate(ctx, "R04.2", fm, first, "get_function", p, G.pred_false(p))
    # visibility: min_vis, or the documented force_publish flag
    fp = None
    for d, (name, sets) in G.bool_flags(fm).items():
        tested = G.edges_where(fm, G.local_true(d))
        if tested and sets:
            fp = (d, name, sets)
    fp_pred = G.local_true(fp[0]) if fp else None
    ok = G.gated(fm, first, G.edges_where(fm, G.any_of(vis_min, fp_pred)))
    ctx.ob("R04.2", "define_method|get_function|vis-or-force_publish", ok, fm.loc(first),
           "method export requires _vis <= min_vis or the force_publish flag")
    if fp:
        def documented(atom, truth):
            return truth and ((atom.get("k") == "call" and any(x.get("k") == "str" and x.get("v") == "get_class_type" for x in walk(atom))) or
                              any(x.get("k") == "ref" and x.get("n", "").endswith("F_destructor") for x in walk(atom)))
        pub_edges = G.edges_where(fm, vis_pub)
        doc_edges = G.edges_where(fm, documented)
        for i, s in enumerate(sorted(fp[2], key=lambda n: fm.line_of(n))):
            okp = G.gated(fm, s, pub_edges)
            okd = G.gated(fm, s, doc_edges)
            ctx.ob("R04.2", "define_method|force_publish#%d|only-public-documented-case" % i, okp and okd, fm.loc(s),
                   "force_publish = true is %sbehind _vis <= V_public and %sbehind the get_class_type/destructor test" % (
                       "" if okp else "NOT ", "" if okd else "NOT "))
        ctx.ob("R04.2", "define_method|force_publish|two-sites", len(fp[2]) <= 2, fm.loc(),
               "force_publish is set at %d site(s); the source documents two" % len(fp[2]))
    # define_struct_type: gates before the member loop and around nested types
    fd = db.fn(B + "define_struct_type")
    forced_p = [p for p in fd.params if p["t"] == "bool"]
    if not forced_p:
        ctx.broken("define_struct_type: bool `forced` parameter not found")
    forced_edges = [G.local_true(forced_p[0]["d"])]
    member_loop = None
    for n in fd.walk():
        if n.get("k") == "for":
            c = loop_container(fd, n)
            if c is not None and (field_of(c) or "").endswith("_declarations"):
                member_loop = n
    if member_loop is None:
        ctx.broken("define_struct_type: loop over scope->_declarations not found")
    member_sinks = []
    for n in walk(member_loop["body"]):
        if n.get("k") == "call" and n.get("f", "").startswith(B) and callee_short(n) in (
                "define_method", "scan_element", "get_type", "get_make_property", "get_make_seq"):
            member_sinks.append(n)
    synth = [n for n in fd.walk() if n.get("k") == "call" and n.get("f") == B + "get_function"]
    ctx.floor("R04.2", "member sinks in define_struct_type", len(member_sinks), 8)
    for s in member_sinks + synth:
        nm = callee_short(s) + "@L%d" % 0
        nm = "%s#%d" % (callee_short(s), (member_sinks + synth).index(s))
        _check_gate(ctx, "R04.2", fd, s, nm, "file", file_local, forced_edges, " (or forced)")
        _check_gate(ctx, "R04.2", fd, s, nm, "involves_unpublished", G.pred_false("involves_unpublished"))
        _check_gate(ctx, "R04.2", fd, s, nm, "involves_protected", G.pred_false("involves_protected"))
    for s in member_sinks:
        if callee_short(s) == "get_type":
            nm = "nested-get_type#%d" % member_sinks.index(s)
            _check_gate(ctx, "R04.2", fd, s, nm, "vis", vis_min, [G.pred_true("in_forcetype")], " (or in_forcetype)")
        elif callee_short(s) == "scan_element":
            # define_method consults the ignoremember list itself (checked above); a data member is filtered here
            _check_gate(ctx, "R04.2", fd, s, "scan_element#%d" % member_sinks.index(s), "in_ignoremember", G.pred_false("in_ignoremember"))
        elif callee_short(s) in ("get_make_property", "get_make_seq"):
            # define_method and scan_element apply the visibility test themselves (R04.1/R04.2); these two do not
            _check_gate(ctx, "R04.2", fd, s, "%s#%d" % (callee_short(s), member_sinks.index(s)), "vis", vis_min)

    _access_labels(ctx)
    _accessible_accessors(ctx)
    _command_file_lines(ctx)
    _member_class_access_travels(ctx)
    # ------------------------------------------------------------ R04.3
    _siblings(ctx)
    # ------------------------------------------------------------ R04.4
    _writers(ctx)
    # ------------------------------------------------------------ R04.5
    _commands(ctx)


def _access_labels(ctx):
    """R04.6: the visibility the parser stamps comes from the access labels.  Table agreement between
    the label tokens and the enumerator they install, and save/restore pairing of a publish region."""
    import re
    from .. import grammar as GR
    db = ctx.db
    ctx.rule("R04.6", "each access label installs its own visibility on the current scope; __begin_publish saves the current scope's visibility and __end_publish restores it to the same scope")
    g = GR.Grammar(db.meta["grammar"])
    want = {"KW_PUBLISHED": {"V_published"}, "KW_PUBLIC": {"V_public", "V_published"}, "KW_PROTECTED": {"V_protected"}, "KW_PRIVATE": {"V_private"}}
    seen = 0
    for nt, alts in g.rules.items():
        for a in alts:
            syms = [x for x in a.syms if x != "@action"]
            if len(syms) == 2 and syms[0] in want and syms[1] == "':'":
                seen += 1
                calls = re.findall(r"(\w+)\s*->\s*set_current_vis\(\s*(\w+)\s*\)", a.action or "")
                objs = {c[0] for c in calls}
                vals = {c[1] for c in calls}
                ok = bool(calls) and objs == {"current_scope"} and vals <= want[syms[0]] and (syms[0][3:].lower() in {v[2:] for v in vals})
                ctx.ob("R04.6", "label|%s" % syms[0], ok, "src/cppparser/cppBison.yxx:%d" % a.line,
                       "`%s :` installs %s on %s" % (syms[0][3:].lower(), sorted(vals), sorted(objs)))
    ctx.floor("R04.6", "access-label alternatives", seen, 4)
    yy = db.fn("cppyyparse")
    saves, restores, sets = [], [], []
    for n in yy.walk():
        t = assigned_target(n)
        if t:
            l = peel(t[0])
            if l is not None and l.get("k") == "ref" and l.get("n") == "publish_previous":
                saves.append((n, t[1]))
        if n.get("k") == "call" and callee_short(n) == "set_current_vis" and "this" in n:
            obj = peel(n["this"])
            arg = strip_casts(n["a"][0]) if n.get("a") else None
            sets.append((n, obj, arg))
            if arg is not None and arg.get("k") == "ref" and arg.get("n") == "publish_previous":
                restores.append((n, obj))
    ctx.floor("R04.6", "set_current_vis calls in the grammar actions", len(sets), 8)
    for n, rhs in saves:
        r = peel(rhs)
        obj = peel(r.get("this")) if (r is not None and r.get("k") == "call" and callee_short(r) == "get_current_vis" and "this" in r) else None
        ok = obj is not None and obj.get("k") == "ref" and obj.get("n") == "current_scope"
        ctx.ob("R04.6", "begin_publish|saves-current-scope", ok, yy.loc(n), "publish_previous is taken from %s (must be the scope whose visibility is about to change)" % (show(obj) if obj else show(rhs)))
    for n, obj in restores:
        ok = obj is not None and obj.get("k") == "ref" and obj.get("n") == "current_scope"
        ctx.ob("R04.6", "end_publish|restores-current-scope", ok, yy.loc(n), "publish_previous is restored into %s" % show(obj))
    ctx.ob("R04.6", "publish|save-and-restore-present", len(saves) == 1 and len(restores) == 1, yy.loc(), "%d save(s), %d restore(s) of publish_previous" % (len(saves), len(restores)))
    for n, obj, arg in sets:
        ok = obj is not None and obj.get("k") == "ref" and obj.get("n") == "current_scope"
        if not ok:
            ctx.ob("R04.6", "set_current_vis|on-current-scope|%s" % show(n).replace(" ", ""), False, yy.loc(n), "visibility installed on %s, not on the current scope" % show(obj))


def switch_arms(sw):
    """[(labels, [stmt nodes])] of a switch statement; labels are case values / 'default'."""
    body = sw.get("body")
    stmts = body.get("s", []) if body and body.get("k") == "block" else [body]
    arms = []
    cur = None
    for st in stmts:
        labels = []
        node = st
        while node is not None and node.get("k") in ("case", "default"):
            labels.append(node.get("v") if node["k"] == "case" else "default")
            node = node.get("sub")
        if labels:
            # fallthrough from a previous arm without break keeps accumulating
            if cur is not None and cur[1] and not _ends(cur[1][-1]):
                cur[0].extend(labels)
            else:
                cur = (labels, [])
                arms.append(cur)
            if node is not None:
                cur[1].append(node)
        elif cur is not None:
            cur[1].append(st)
    return arms


def _ends(st):
    k = st.get("k")
    if k in ("break", "ret", "continue", "goto"):
        return True
    if k == "block" and st.get("s"):
        return _ends(st["s"][-1])
    if k == "if" and st.get("else") is not None:
        return _ends(st["then"]) and _ends(st["else"])
    return False


def _siblings(ctx):
    db = ctx.db
    sub = db.enum("CPPDeclaration::SubType")
    val = {c["n"]: c["v"] for c in sub["consts"]}
    preds = {
        "TypeManager::involves_unpublished": {"ST_const": {"_wrapped_around"}, "ST_reference": {"_pointing_at"}, "ST_pointer": {"_pointing_at"}, "ST_typedef": {"_type"}},
        "TypeManager::involves_protected": {"ST_const": {"_wrapped_around"}, "ST_reference": {"_pointing_at"}, "ST_pointer": {"_pointing_at"}, "ST_typedef": {"_type"},
                                            "ST_function": {"_return_type", "_type"}},
        "TypeManager::involves_rvalue_reference": {"ST_const": {"_wrapped_around"}, "ST_reference": set(), "ST_pointer": {"_pointing_at"}, "ST_typedef": {"_type"},
                                                   "ST_function": {"_return_type", "_type"}},
        "InterrogateBuilder::in_ignoreinvolved": {"ST_const": {"_wrapped_around"}, "ST_reference": {"_pointing_at"}, "ST_pointer": {"_pointing_at"}, "ST_typedef": {"_type"},
                                                  "ST_function": {"_return_type", "_type"}},
    }
    n = 0
    for pname, want in preds.items():
        fn = db.fn(pname, sig_contains="CPPType")
        sw = [x for x in fn.walk() if x.get("k") == "switch"]
        if len(sw) != 1:
            ctx.broken("%s: expected one switch on get_subtype()" % pname)
        arms = switch_arms(sw[0])
        for st, fields in want.items():
            n += 1
            arm = [a for a in arms if val[st] in a[0]]
            if not arm:
                ctx.ob("R04.3", "%s|%s" % (pname.split("::")[-1], st), False, fn.loc(sw[0]),
                       "no case %s: a %s wrapper hides the wrapped type from the predicate" % (st, st[3:]))
                continue
            got = set()
            for stn in arm[0][1]:
                for c in walk(stn):
                    if c.get("k") == "call" and c.get("f") == pname and c.get("a"):
                        # the recursion is into the SAME predicate: the overload that takes a type, handed the wrapped type
                        # itself (S10-C04: in_ignoreinvolved(tdef->_type->get_simple_name()) - the by-name overload - looked
                        # like a recursion to a check that only compared the function's name)
                        a0 = strip_casts(peel(c["a"][0]))
                        if "CPPType" not in (c.get("s") or "") or a0 is None or a0.get("k") not in ("mem", "ref"):
                            continue
                        srcs = [c["a"][0]]
                        # a local holding the wrapped type: read through to what it was initialised with
                        for x in walk(c["a"][0]):
                            if x.get("k") == "ref" and x.get("dk") == "local":
                                for st2 in fn.walk():
                                    if st2.get("k") == "decls":
                                        for d2 in st2["d"]:
                                            if d2.get("d") == x.get("d") and d2.get("init") is not None:
                                                srcs.append(d2["init"])
                        for src in srcs:
                            for x in walk(src):
                                if x.get("k") == "mem":
                                    got.add(x["n"].split("::")[-1])
                                    break
            ok = fields <= got
            ctx.ob("R04.3", "%s|%s" % (pname.split("::")[-1], st), ok, fn.loc(arm[0][1][0]) if arm[0][1] else fn.loc(),
                   "case %s recurses into %s (required %s)" % (st, sorted(got), sorted(fields)))
    ctx.floor("R04.3", "predicate x wrapper cases", n, 18)
    # bottoms out on the declaration's visibility with the right bound
    fp = db.fn("TypeManager::involves_protected")
    ok = False
    for x in fp.walk():
        if x.get("k") == "ret" and x.get("e") is not None:
            c = G.cmp_atom(peel(x["e"]))
            if c and c[0] == ">" and (field_of(c[1]) or "").endswith("_vis") and c[2] is not None and c[2].get("n", "").endswith("V_public"):
                ok = True
    ctx.ob("R04.3", "involves_protected|bottom", ok, fp.loc(), "bottoms out on _declaration->_vis > V_public")
    fu = db.fn("TypeManager::involves_unpublished")
    vle = G.vis_le("min_vis")
    n_cmp = 0
    for x in fu.walk():
        if x.get("k") == "ret" and x.get("e") is not None:
            e = peel(x["e"])
            if G.cmp_atom(e) is not None and (vle(e, True) or vle(e, False)):
                n_cmp += 1
                # returning true must mean "not published": the value false establishes _vis <= min_vis
                ctx.ob("R04.3", "involves_unpublished|bottom|polarity", vle(e, False) and not vle(e, True), fu.loc(x),
                       "returns `%s`" % show(e))
    rets_false = [x for x in fu.walk() if x.get("k") == "ret" and x.get("e") is not None and const_int(x["e"]) == 0]
    e2, _ = G.gate_edges(fu, vle)
    guarded = [r for r in rets_false if G.gated(fu, r, e2)]
    ctx.ob("R04.3", "involves_unpublished|bottom", n_cmp + len(guarded) >= 2, fu.loc(),
           "bottoms out on the declaration's _vis against min_vis (%d direct comparison(s), %d guarded `return false`)" % (n_cmp, len(guarded)))


def _writers(ctx):
    db = ctx.db
    allowed_local = {
        "CPPParser::parse_file": "files named on the command line",
        "CPPPreprocessor::preprocess_file": "files named on the command line (preprocess-only mode)",
        "CPPPreprocessor::handle_include_directive": "file listed in _explicit_files",
        "CPPPreprocessor::find_include": "found in the working directory",
    }
    n_sites = 0
    for f in db.functions:
        for n in f.walk():
            if n.get("k") == "ref" and n.get("dk") == "enumc" and n.get("n", "").endswith("S_local") and n.get("en", "").endswith("Source"):
                par = next(f.ancestors(n), None)
                # comparisons read the enumerator; anything else stores it
                if par is not None and G.cmp_atom(par) is not None:
                    continue
                n_sites += 1
                ok = f.name in allowed_local
                ctx.ob("R04.4", "S_local-stored-in|%s" % f.name, ok, f.loc(n),
                       "S_local stored in %s (%s)" % (f.name, allowed_local.get(f.name, "NOT an allowed site")))
    ctx.floor("R04.4", "sites storing S_local", n_sites, 4)
    # find_include: the S_local store is on the working-directory probe, not in the path loop
    fi = db.fn("CPPPreprocessor::find_include")
    for n in fi.walk():
        t = assigned_target(n)
        if t and any(x.get("k") == "ref" and x.get("n", "").endswith("S_local") for x in walk(t[1])):
            in_loop = next(enclosing_loops(fi, n), None) is not None
            ctx.ob("R04.4", "find_include|S_local-not-in-search-loop", not in_loop, fi.loc(n),
                   "S_local is assigned %s the include-path loop" % ("inside" if in_loop else "outside"))
    # min_vis
    g = db.globals.get("min_vis")
    if g is None:
        ctx.broken("global min_vis not found")
    init = strip_casts(g.get("init")) if g.get("init") else None
    ctx.ob("R04.4", "min_vis|initialiser", init is not None and init.get("n") == "V_published", "src/interrogate/interrogate.cxx:%d" % g["line"],
           "min_vis is initialised to %s" % (init.get("n") if init else None))
    writes = 0
    for f in db.functions:
        for n in f.walk():
            t = assigned_target(n)
            lhs = peel(t[0]) if t else None
            if n.get("k") == "bin" and n.get("op") not in ("=",) and n.get("op", "").endswith("=") and n.get("op") not in ("==", "!=", "<=", ">="):
                lhs = peel(n["x"])
                t = (lhs, None)
            if t and lhs is not None and lhs.get("k") == "ref" and lhs.get("n") == "min_vis" and lhs.get("dk") == "global":
                writes += 1
                rhs = strip_casts(t[1]) if t[1] is not None else None
                okv = rhs is not None and rhs.get("n") == "V_public"
                # under the -promiscuous option
                okc = False
                if f.name == "main" and f.file.endswith("interrogate.cxx"):
                    loc = f.cfg.locate(n)
                    for b, idx, s in f.cfg.edges():
                        if s == loc[0]:
                            lab = f.cfg.edge_label(b, idx)
                            if isinstance(lab, tuple):
                                en = db.enum("CommandOptions") if "CommandOptions" in db.enums else None
                                names = {c["v"]: c["n"] for c in en["consts"]} if en else {}
                                okc = any(names.get(v) == "CO_promiscuous" for v in lab[1:])
                ctx.ob("R04.4", "min_vis|write|%s" % f.name, okv and okc, f.loc(n),
                       "min_vis = %s in %s %s" % (show(t[1]) if t[1] is not None else "?", f.name, "under case CO_promiscuous" if okc else "NOT under the -promiscuous option"))
    ctx.floor("R04.4", "writes of min_vis", writes, 1)
    # take address / non-const reference of min_vis would be another way to write it
    for f in db.functions:
        for n in f.walk():
            if n.get("k") == "un" and n.get("op") == "&":
                r = peel(n["e"])
                if r is not None and r.get("k") == "ref" and r.get("n") == "min_vis":
                    ctx.ob("R04.4", "min_vis|address-taken|%s" % f.name, False, f.loc(n), "address of min_vis taken")


def _commands(ctx):
    db = ctx.db
    fn = db.fn(B + "do_command")
    rec = db.record("InterrogateBuilder")
    members = {f["n"] for f in rec["fields"]}
    arms = {}
    node = None
    for n in fn.walk():
        if n.get("k") == "if":
            node = n
            break
    while node is not None and node.get("k") == "if":
        atom, pos = cond_atom(fn, node["c"])
        c = G.cmp_atom(atom)
        lit = None
        if c and c[0] == "==" and pos:
            for x in (c[1], c[2]):
                y = strip_casts(x)
                if y is not None and y.get("k") == "ctor" and y.get("a"):
                    y = strip_casts(y["a"][0])
                if y is not None and y.get("k") == "str":
                    lit = y["v"]
        if lit is not None:
            arms[lit] = node["then"]
        node = node.get("else")
    ctx.floor("R04.5", "commands in do_command", len(arms), 9)
    n = 0
    for lit, body in sorted(arms.items()):
        m = "_" + lit
        if m not in members:
            continue
        n += 1
        written = set()
        for x in walk(body):
            if x.get("k") == "call":
                tgt = None
                if "this" in x and callee_short(x) in ("insert", "push_back", "emplace"):
                    tgt = field_of(x["this"])
                elif callee_short(x) == "insert_param_list" and x.get("a"):
                    tgt = field_of(x["a"][0])
                elif x.get("opc") and callee_short(x) == "operator[]":
                    tgt = field_of(x["a"][0])
                if tgt and tgt.startswith(B + "_"):
                    written.add(tgt.split("::")[-1])
        ctx.ob("R04.5", "command|%s" % lit, written == {m}, fn.loc(body), "command `%s` stores into %s (expected {%s})" % (lit, sorted(written), m))
        pred = db.fns(B + "in_" + lit)
        preds = [p for p in pred if "basic_string" in p.sig or "std::string" in p.sig]
        if pred and not preds:
            preds = pred
        for p in preds:
            reads = {x["n"].split("::")[-1] for x in p.walk() if x.get("k") == "mem" and x["n"].startswith(B + "_")}
            if not reads:
                continue
            ctx.ob("R04.5", "predicate|in_%s" % lit, reads == {m}, p.loc(), "in_%s reads %s (expected {%s})" % (lit, sorted(reads), m))
    ctx.floor("R04.5", "commands with a backing set", n, 6)



def _ignorefile_keys(ctx):
    """R04.8: an `ignorefile` line of a .N file names a header the way it is written in #include directives.  Every
    site that asks in_ignorefile() must therefore pass the declaration's _filename_as_referenced; a site that passes
    another spelling (full path, basename) silently disagrees with the others for directory-qualified names."""
    db = ctx.db
    ctx.rule("R04.8", "every in_ignorefile() argument is <declaration>._file._filename_as_referenced (the spelling `ignorefile` lines are matched against); all sites agree")
    n = 0
    for f in db.functions:
        if "/interrogate/" not in f.file:
            continue
        for c in f.walk():
            if c.get("k") != "call" or callee_short(c) != "in_ignorefile" or not c.get("a"):
                continue
            n += 1
            arg = c["a"][0]
            # a local that holds the name: judge what it was initialised with
            def unconv(n):
                n = strip_casts(peel(n))
                while n is not None and n.get("k") == "call" and "this" in n and (callee_short(n).startswith("operator ") or callee_short(n) in ("get_fullpath", "c_str", "to_string") or "basic_string" in callee_short(n)):
                    n = strip_casts(peel(n["this"]))
                while n is not None and n.get("k") == "ctor" and len(n.get("a", [])) == 1:
                    n = strip_casts(peel(n["a"][0]))
                return n
            lr = local_ref(unconv(arg))
            hops = 0
            while lr is not None and lr.get("dk") == "local" and hops < 4:
                init = None
                for st in f.walk():
                    if st.get("k") == "decls":
                        for d in st["d"]:
                            if d.get("d") == lr.get("d") and d.get("init") is not None:
                                init = d["init"]
                if init is None:
                    break
                arg = init
                lr = local_ref(unconv(arg))
                hops += 1
            # look through implicit std::string conversions of the Filename
            flds = [x["n"] for x in walk(arg) if x.get("k") == "mem" and not x.get("method")]
            calls = [callee_short(x) for x in walk(arg) if x.get("k") == "call" and x is not arg and not (x.get("f") or "").startswith("std::") and callee_short(x) not in ("operator const std::string &", "get_fullpath", "operator basic_string")]
            ok = bool(flds) and flds[0].endswith("CPPFile::_filename_as_referenced") and not [k for k in calls if k in ("get_basename", "get_dirname", "get_fullpath_wo_extension", "get_basename_wo_extension", "to_os_specific")]
            ctx.ob("R04.8", "%s|in_ignorefile|%s" % (f.name, show(arg).replace(" ", "")[:60]) if not ok else "%s|in_ignorefile" % f.name, ok, f.loc(c),
                   "in_ignorefile(%s): %s" % (show(arg)[:70], "the spelling as referenced" if ok else "NOT the declaration's _filename_as_referenced"))
    ctx.floor("R04.8", "in_ignorefile call sites", n, 8)




def _transparent_wrappers(ctx):
    """R04.9: `its signature involves no private/protected/unpublished type` is decided by recursive predicates.  A
    const, pointer, reference or typedef around a hidden type hides nothing: those arms must be pure recursion into the
    wrapped type (a public typedef of a private nested class must still count as involving it)."""
    from .C02 import _canon_arm
    db = ctx.db
    ctx.rule("R04.9", "in TypeManager::involves_protected and involves_unpublished the const / pointer / reference / typedef arms are exactly `return <same predicate>(<wrapped type>)`")
    en = db.enums.get("CPPDeclaration::SubType")
    names = {c["v"]: c["n"].split("::")[-1] for c in en["consts"]}
    n = 0
    for fname in ("TypeManager::involves_protected", "TypeManager::involves_unpublished"):
        for f in db.fns(fname):
            sw = [x for x in f.walk() if x.get("k") == "switch" and any(c.get("k") == "call" and callee_short(c) == "get_subtype" for c in walk(x["c"]))]
            if len(sw) != 1:
                ctx.broken("%s: subtype switch not found" % fname)
            arms = {}
            for labs, stmts in switch_arms(sw[0]):
                for v in labs:
                    arms[names.get(v, v)] = stmts
            for lab, sub, fld in (("ST_const", "const", "_wrapped_around"), ("ST_pointer", "pointer", "_pointing_at"),
                                  ("ST_reference", "reference", "_pointing_at"), ("ST_typedef", "typedef", "_type")):
                if lab not in arms:
                    ctx.ob("R04.9", "%s|%s" % (fname.split("::")[-1], lab), False, f.loc(), "no arm for %s: the wrapper would fall to the default and hide what it wraps" % lab)
                    continue
                n += 1
                got = _canon_arm(db, f, arms[lab], lab)
                # the recursive call may carry further arguments (min_vis): compare callee, accessor and field
                ok = got[:3] == ("self", sub, fld)
                ctx.ob("R04.9", "%s|%s" % (fname.split("::")[-1], lab), ok, f.loc(arms[lab][0]),
                       "a %s is looked through: %s" % (sub, got))
    ctx.floor("R04.9", "wrapper arms", n, 8)




def _accessible_accessors(ctx):
    """R04.10: MAKE_PROPERTY / MAKE_SEQ name their accessors; get_make_property()/get_make_seq() look the name up among
    ALL methods of the class and hand the chosen one to get_function(), which exports it without any visibility test
    (define_method, the normal path, makes that test before it calls get_function).  A private or protected candidate
    must be skipped, or the binding calls a method C++ would not let the caller reach.  (F-C04b.)"""
    db = ctx.db
    ctx.rule("R04.10", "in get_make_property()/get_make_seq(), a method reaches get_function() - or is remembered as getter/setter/... - only behind a test that its _vis is at most V_public")
    n = 0
    for short in ("get_make_property", "get_make_seq"):
        f = db.fn(B + short)
        loops = [lp for lp in f.walk() if lp.get("k") == "for" and any(y.get("k") == "mem" and (y.get("n") or "").endswith("CPPFunctionGroup::_instances") for y in walk(lp.get("c") or {}) )]
        if not loops:
            loops = [lp for lp in f.walk() if lp.get("k") == "for" and "_instances" in show(lp.get("c") or {})]
        for i, lp in enumerate(loops):
            n += 1
            body = lp.get("body")
            # the loop variable: the local initialised from *fi
            cand = None
            for y in walk(body):
                if y.get("k") == "decls":
                    for d in y["d"]:
                        if (d.get("t") or "").replace(" ", "") == "CPPInstance*" and d.get("init") is not None:
                            cand = d
                            break
                if cand:
                    break
            if cand is None:
                ctx.ob("R04.10", "%s|loop#%d|candidate" % (short, i), False, f.loc(lp), "no `CPPInstance *function = (*fi)` found in the candidate loop")
                continue
            d = cand["d"]

            def accessible(atom, truth, d=d):
                c = G.cmp_atom(atom)
                if not c:
                    return False
                op, u, v = c
                if not truth:
                    op = G.NEG[op]
                for p, q, o in ((u, v, op), (v, u, G.SWAP[op])):
                    pp = strip_casts(peel(p)) if p is not None else None
                    if pp is not None and pp.get("k") == "mem" and (pp.get("n") or "").endswith("::_vis") and (local_ref(pp.get("b")) or {}).get("d") == d:
                        qq = strip_casts(peel(q)) if q is not None else None
                        name = (qq or {}).get("n", "") if qq is not None else ""
                        if name.endswith("V_public"):
                            return o in ("<=",)
                        if name.endswith("V_protected"):
                            return o in ("<",)
                        if name.endswith("V_published"):
                            return o in ("<=", "==")
                return False
            edges = G.edges_where(f, accessible)
            uses = []
            for y in walk(body):
                if y.get("k") == "call" and y.get("f") == B + "get_function" and y.get("a") and (local_ref(y["a"][0]) or {}).get("d") == d:
                    uses.append(y)
                t = assigned_target(y)
                if t and (local_ref(t[1]) or {}).get("d") == d:
                    uses.append(y)
            ok = bool(uses) and bool(edges) and all(G.gated(f, y, edges) for y in uses)
            ctx.ob("R04.10", "%s|loop#%d|candidate-accessible" % (short, i), ok, f.loc(lp),
                   "%d use(s) of the candidate `%s` (get_function / remembered) are %sbehind `%s->_vis <= V_public`" % (len(uses), cand["n"], "" if ok else "NOT all ", cand["n"]))
    ctx.floor("R04.10", "accessor candidate loops", n, 8)


def _command_file_lines(ctx):
    """R04.11: a command file excludes members, types and files.  Its last line counts even when the file does not end
    in a newline: std::getline() then sets eofbit WITHOUT failbit, so a read loop that stops at eof() drops that line.
    (F-C04a: `ignoremember secret` as the whole file was ignored.)"""
    db = ctx.db
    ctx.rule("R04.11", "read_command_file()'s loop over getline() does not end on eof(): it runs while the last getline() did not fail")
    f = db.fn(B + "read_command_file")
    loops = [lp for lp in f.walk() if lp.get("k") in ("while", "for", "do") and any(y.get("k") == "call" and callee_short(y) == "do_command" for y in walk(lp.get("body") or {}))]
    if not loops:
        ctx.broken("R04.11: the loop of read_command_file that calls do_command not found")
    lp = loops[0]
    eofs = [y for y in walk(lp.get("c") or {}) if y.get("k") == "call" and callee_short(y) == "eof"]
    ctx.ob("R04.11", "read_command_file|loop-does-not-stop-at-eof", not eofs, f.loc(lp), "loop condition `%s`" % show(lp.get("c"))[:60])
    fails = [y for y in walk(lp.get("c") or {}) if y.get("k") == "call" and callee_short(y) in ("fail", "operator bool", "operator!", "good")] or \
            [y for y in walk(lp.get("c") or {}) if y.get("k") == "call" and callee_short(y) == "getline"]
    ctx.ob("R04.11", "read_command_file|loop-tests-the-read", bool(fails) and not any(callee_short(y) == "good" for y in fails), f.loc(lp),
           "the loop is controlled by the outcome of the read (fail()/stream-as-bool/getline in the condition), not by good()")


def _member_class_access_travels(ctx):
    """R04.13: the builder decides whether a class may be exported from the visibility of its type DECLARATION
    (TypeManager::involves_protected: `type->_declaration->_vis > V_public`).  For `class Outer { private: class Inner; };
    class Outer::Inner { __published: ... };` that declaration is added to the namespace scope and would get the
    namespace's visibility.  Two statements make the private member class private: define_extension_type(), when the
    definition replaces the forward declaration in a CLASS scope, copies the forward declaration's _vis to the new type;
    add_declaration() gives a type declaration the narrower of the scope's visibility and the declared type's own.
    (F-C04d: neither existed; Outer::Inner::leak() was exported with a wrapper.)"""
    db = ctx.db
    ctx.rule("R04.13", "define_extension_type copies the replaced forward declaration's _vis to the defining type (in a class scope); add_declaration raises a type declaration's _vis to the declared type's own when that is narrower")
    fd = db.fn("CPPScope::define_extension_type")
    p0 = _param(fd, 0)
    carried = []
    for y in fd.walk():
        t = assigned_target(y)
        if not t:
            continue
        tgt, val = strip_casts(peel(t[0])), strip_casts(peel(t[1]))
        if tgt is not None and tgt.get("k") == "mem" and (tgt.get("n") or "").endswith("::_vis") and (local_ref(tgt.get("b")) or {}).get("d") == p0 and \
           val is not None and val.get("k") == "mem" and (val.get("n") or "").endswith("::_vis") and (local_ref(val.get("b")) or {}).get("d") not in (None, p0):
            carried.append(y)
    in_class = G.edges_where(fd, lambda atom, truth: (field_of(strip_casts(peel(atom))) or "").endswith("::_struct_type") and truth) + \
        G.edges_where(fd, lambda atom, truth: bool(G.cmp_atom(atom)) and "_struct_type" in show(atom) and (G.cmp_atom(atom)[0] == ("!=" if truth else "==")))
    ok = bool(carried) and bool(in_class) and all(G.gated(fd, y, in_class) for y in carried)
    ctx.ob("R04.13", "define_extension_type|forward-declaration-access-carried", ok, fd.loc(carried[0]) if carried else fd.loc(),
           "the defining type takes the _vis of the forward declaration it replaces, in a class scope" if ok else "the access of a replaced forward declaration is dropped")
    fa = db.fn("CPPScope::add_declaration")
    d0 = _param(fa, 0)
    sets = [y for y in fa.walk() if assigned_target(y) and (strip_casts(peel(assigned_target(y)[0])) or {}).get("k") == "mem" and
            (strip_casts(peel(assigned_target(y)[0])).get("n") or "").endswith("::_vis") and (local_ref(strip_casts(peel(assigned_target(y)[0])).get("b")) or {}).get("d") == d0]
    own = [y for y in sets if "_type" in show(assigned_target(y)[1]) and "_vis" in show(assigned_target(y)[1])]

    def narrower(atom, truth):
        ca = G.cmp_atom(atom)
        if not ca:
            return False
        op, u, v = ca
        op = op if truth else G.NEG[op]
        su, sv = show(u) if u is not None else "", show(v) if v is not None else ""
        if "_type" in su and "_vis" in su and "_vis" in sv and "_type" not in sv:
            return op == ">"
        if "_type" in sv and "_vis" in sv and "_vis" in su and "_type" not in su:
            return op == "<"
        return False
    e = G.edges_where(fa, narrower)
    ok = bool(own) and bool(e) and all(G.gated(fa, y, e) for y in own) and len(sets) >= 2
    ctx.ob("R04.13", "add_declaration|type-declaration-keeps-the-narrower-access", ok, fa.loc(own[0]) if own else fa.loc(),
           "a type declaration's _vis becomes the declared type's own _vis where that is greater (narrower)" if ok else
           "a type declaration always takes the scope's current visibility")
