"""C02 — Python-native bindings dispatch, convert and own objects as C++ would.

Decided (naming/slot tables only): the generator's static tables agree with
the Python data model.
  R02.1 operator -> dunder -> slot agreement between methodRenameDictionary,
        get_slotted_function_def and CPython's slotdefs.
  R02.2 pythonKeywords covers the interpreter's hard keywords.
Not decided: overload dispatch, conversion, ownership, exceptions, absence of
crashes/leaks in generated modules and in the embedded runtime.
"""
import json
import os

from ..facts import peel, strip_casts, show, walk, cond_atom
from .common import callee_short, field_of, base_of, assigned_target, const_int, local_ref
from . import gates as G

LEVEL = "other"
EXPLANATION = ("Agreement of three static tables of the Python-native back-end (operator rename dictionary, slot assignment if-chain, "
               "keyword list) with the Python data model (CPython slotdefs, language-reference keywords).  Exhaustive over the tables; "
               "says nothing about dispatch, conversion or ownership in generated code.")
TRUSTED = ["clang 14 AST (aggregate initialisers, string literals)", "ivf/spec/python_slots.json", "ivf/spec/python_keywords.json"]
ASSUMPTIONS = ["operators reach Python only through the slot table and the rename dictionary"]


def _spec(name):
    return json.load(open(os.path.join(os.path.dirname(os.path.dirname(__file__)), "spec", name)))


def _str_of(n):
    n = strip_casts(n)
    if n is not None and n.get("k") == "ctor" and n.get("a"):
        n = strip_casts(n["a"][0])
    if n is not None and n.get("k") == "str":
        return n["v"]
    return None


def rename_table(db):
    g = db.globals.get("methodRenameDictionary")
    if g is None or not g.get("init"):
        return None, None
    rows = []
    for r in g["init"].get("a", []):
        r = peel(r)
        cells = r.get("a", []) if r is not None else []
        if len(cells) >= 3:
            rows.append((_str_of(cells[0]), _str_of(cells[1]), const_int(cells[2])))
    return rows, g


def slot_table(fn):
    """[(literals: [(name, unary_required)], slot, wrapper_type, node)]"""
    out = []
    unary_var = None
    for n in fn.walk():
        if n.get("k") == "decls":
            for d in n["d"]:
                if d.get("ct") == "bool" and "init" in d and any(c.get("k") == "call" and callee_short(c) == "is_unary_op" for c in walk(d["init"])):
                    unary_var = d["d"]
    for n in fn.walk():
        if n.get("k") != "if":
            continue
        body = n.get("then")
        slot = wt = None
        for x in walk(body):
            if x.get("k") == "if" and x is not body:
                pass
            t = assigned_target(x)
            if t:
                f = field_of(t[0]) or ""
                if f.endswith("_answer_location"):
                    slot = slot or _str_of(t[1])
                if f.endswith("_wrapper_type"):
                    v = strip_casts(t[1])
                    wt = wt or (v.get("n", "").split("::")[-1] if v is not None else None)
        if slot is None:
            continue
        # only the innermost if that directly assigns the slot
        inner = [x for x in walk(body) if x.get("k") == "if" and x is not n and any(
            (field_of(assigned_target(y)[0]) or "").endswith("_answer_location") for y in walk(x.get("then")) if assigned_target(y))]
        direct = any(assigned_target(y) and (field_of(assigned_target(y)[0]) or "").endswith("_answer_location")
                     for s in (body.get("s", []) if body.get("k") == "block" else [body]) for y in ([s] if s.get("k") != "if" else []) for y in walk(s))
        if not direct:
            continue
        lits = []
        for conj in _dnf(n["c"]):
            name = None
            unary = False
            for atom, truth in conj:
                c = G.cmp_atom(atom)
                if c and c[0] == "==" and truth:
                    for x in (c[1], c[2]):
                        s = _str_of(x)
                        if s is not None:
                            name = s
                r = local_ref(atom)
                if r is not None and r.get("d") == unary_var and truth:
                    unary = True
            if name is not None:
                lits.append((name, unary))
        if lits:
            out.append((lits, slot, wt, n))
    return out


def _dnf(cond):
    """cond as a list of conjunctions [(atom, truth)] (|| of && of atoms)."""
    n = peel(cond)
    if n is not None and n.get("k") == "bin" and n.get("op") == "||":
        return _dnf(n["x"]) + _dnf(n["y"])
    if n is not None and n.get("k") == "bin" and n.get("op") == "&&":
        out = []
        for a in _dnf(n["x"]):
            for b in _dnf(n["y"]):
                out.append(a + b)
        return out
    return [[(n, True)]]


def run(ctx):
    db = ctx.db
    slots = _spec("python_slots.json")
    kw = _spec("python_keywords.json")
    ctx.rule("R02.1", "every dunder name and every renamed C++ operator is assigned the type slot CPython gives that dunder; unary/binary/in-place arity of the wrapper matches the slot; in-place operators go to nb_inplace_* slots")
    ctx.rule("R02.2", "pythonKeywords contains every hard keyword of Python 3")

    rows, g = rename_table(db)
    if not rows:
        ctx.broken("methodRenameDictionary initialiser not found")
    ctx.floor("R02.1", "rename dictionary rows", len(rows), 45)
    rename = {}
    for frm, to, ft in rows:
        if frm is not None:
            rename.setdefault(frm, (to, ft))
    fn = db.fn("InterfaceMakerPythonNative::get_slotted_function_def")
    table = slot_table(fn)
    ctx.floor("R02.1", "slot assignment branches", len(table), 45)
    d2s = slots["dunder_to_slot"]
    cont = slots["container_dunders"]
    n = 0
    for lits, slot, wt, node in table:
        for name, unary in lits:
            if name.startswith("__") and name.endswith("__"):
                if name in d2s:
                    n += 1
                    ctx.ob("R02.1", "slot|%s" % name, d2s[name] == slot, fn.loc(node), "%s is put in %s; CPython's slot for it is %s" % (name, slot, d2s[name]))
                elif name in cont:
                    n += 1
                    ctx.ob("R02.1", "slot|%s|%s" % (name, slot), slot in cont[name], fn.loc(node), "%s is put in %s; allowed %s" % (name, slot, cont[name]))
                else:
                    ctx.info("R02.1 dunder %s -> %s is not in the reference table (not judged)" % (name, slot))
            elif name.startswith("operator "):
                key = name + ("unary" if unary else "")
                cand = rename.get(key) or (rename.get(name) if not unary else None)
                if cand is None:
                    ctx.info("R02.1 %s%s has slot %s but no exact key in methodRenameDictionary (not judged)" % (name, " (unary)" if unary else "", slot))
                    continue
                dunder, ft = cand
                if not (dunder.startswith("__") and dunder.endswith("__")):
                    continue
                want = d2s.get(dunder) or None
                if want is None and dunder in cont:
                    n += 1
                    ctx.ob("R02.1", "operator|%s|%s" % (key.replace(" ", "_"), slot), slot in cont[dunder], fn.loc(node), "%s -> %s -> %s (allowed %s)" % (key, dunder, slot, cont[dunder]))
                    continue
                if want is None:
                    continue
                n += 1
                ctx.ob("R02.1", "operator|%s" % key.replace(" ", "_"), want == slot, fn.loc(node),
                       "C++ %s is renamed %s, whose slot is %s; the generator puts it in %s" % (key, dunder, want, slot))
                if ft == 1:
                    ctx.ob("R02.1", "operator|%s|inplace" % key.replace(" ", "_"), slot.startswith("nb_inplace_") and (wt or "").startswith("WT_inplace"), fn.loc(node),
                           "in-place operator %s uses slot %s with wrapper %s" % (key, slot, wt))
            # arity
            if slot in slots["unary_slots"] and wt is not None:
                ctx.ob("R02.1", "arity|%s|%s" % (name.replace(" ", "_"), slot), wt in ("WT_no_params", "WT_inquiry", "WT_hash", "WT_iter_next", "WT_none"), fn.loc(node),
                       "unary slot %s gets wrapper %s" % (slot, wt))
            if slot in slots["binary_slots"] and wt is not None:
                ctx.ob("R02.1", "arity|%s|%s" % (name.replace(" ", "_"), slot), wt == "WT_binary_operator", fn.loc(node), "binary slot %s gets wrapper %s" % (slot, wt))
    ctx.floor("R02.1", "judged name/slot pairs", n, 60)
    # two different C++ operators must not share a slot (except r-variants of one dunder)
    by_slot = {}
    for lits, slot, wt, node in table:
        for name, unary in lits:
            if name.startswith("operator "):
                by_slot.setdefault(slot, set()).add(name + ("unary" if unary else ""))
    for slot, ops in sorted(by_slot.items()):
        allowed = len(ops) == 1 or slot in ("tp_setattro", "sq_item", "mp_subscript", "sq_ass_item", "mp_ass_subscript", "nb_bool", "nb_int", "nb_float")
        ctx.ob("R02.1", "slot-unique|%s" % slot, allowed, fn.loc(), "operators in slot %s: %s" % (slot, sorted(ops)))
    # dictionary: rows whose target is a dunder keep in-place flag consistent with the dunder's i-prefix
    for frm, to, ft in rows:
        if frm and to and to.startswith("__i") and to.endswith("__") and to not in ("__int__", "__iter__", "__invert__", "__init__"):
            ctx.ob("R02.1", "dictionary|%s|inplace-flag" % frm.replace(" ", "_"), ft == 1, "src/interrogate/interfaceMakerPythonNative.cxx:%d" % g["line"],
                   "%s -> %s has function_type %s (1 = in-place)" % (frm, to, ft))

    # ------------------------------------------------------------ R02.3
    ctx.rule("R02.3", "an `explicit` constructor is never made a coercion (implicit conversion) candidate: every site that marks or counts coercion constructors is behind `!(storage_class & SC_explicit)`")
    not_explicit = G.bits_clear("_storage_class", "SC_explicit")
    n_sites = 0
    for f in db.functions:
        if "/interrogate/" not in f.file:
            continue
        for n in f.walk():
            if n.get("k") == "bin" and n.get("op") == "|=" and any(x.get("k") == "ref" and x.get("n", "").endswith("F_coerce_constructor") and x.get("en", "").startswith("FunctionRemap") for x in walk(n["y"])):
                if (field_of(n["x"]) or "").startswith("FunctionRemap::"):
                    from .C14 import _enclosing_case
                    arm = _enclosing_case(db, f, n) or ""
                    if "T_constructor" not in arm:
                        ctx.info("R02.3 not a constructor site (arm %s): %s" % (arm or "none", f.loc(n)))
                        continue   # e.g. a static make() factory: `explicit` does not apply
                    n_sites += 1
                    ok = G.gated(f, n, G.edges_where(f, not_explicit))
                    ctx.ob("R02.3", "%s|marks-coerce-constructor" % f.name, ok, f.loc(n), "F_coerce_constructor is set %s a test that the constructor is not `explicit`" % ("behind" if ok else "WITHOUT"))
    hc = db.fn("InterfaceMakerPythonNative::has_coerce_constructor")
    rets = [r for r in hc.walk() if r.get("k") == "ret" and const_int(r.get("e")) not in (0, None)]
    e = G.edges_where(hc, not_explicit)
    for i, r in enumerate(rets):
        n_sites += 1
        ok = G.gated(hc, r, e)
        ctx.ob("R02.3", "has_coerce_constructor|return#%d" % i, ok, hc.loc(r), "`return %s` (a coercion candidate exists) is %s the explicit test" % (show(r.get("e")), "behind" if ok else "NOT behind"))
    ctx.floor("R02.3", "coercion-candidate sites", n_sites, 3)

    # ------------------------------------------------------------ R02.2
    kwg = db.globals.get("pythonKeywords")
    if kwg is None or not kwg.get("init"):
        ctx.broken("pythonKeywords initialiser not found")
    have = {_str_of(a) for a in kwg["init"].get("a", [])} - {None}
    ctx.floor("R02.2", "keyword table entries", len(have), 30)
    for k in kw["hard_keywords"]:
        ctx.ob("R02.2", "keyword|%s" % k, k in have, "src/interrogate/interfaceMakerPythonNative.cxx:%d" % kwg["line"],
               "Python keyword `%s` is %sin pythonKeywords%s" % (k, "" if k in have else "NOT ", "" if k in have else ": a published method of that name is exported under a name that is a syntax error in Python"))
    # the table is consulted: checkKeyword prefixes '_'
    ck = db.fn("checkKeyword")
    ok = any(n.get("k") == "str" and n.get("v") == "_" for n in ck.walk()) and any(n.get("k") == "ref" and n.get("n") == "pythonKeywords" for n in ck.walk())
    ctx.ob("R02.2", "checkKeyword|prefixes-underscore", ok, ck.loc(), "checkKeyword() looks the name up in pythonKeywords and prefixes '_'")
    mn = db.fns("methodNameFromCppName")
    ok = any(any(c.get("k") == "call" and c.get("f") == "checkKeyword" for c in f.walk()) for f in mn)
    ctx.ob("R02.2", "methodNameFromCppName|calls-checkKeyword", ok, mn[0].loc() if mn else "", "method names pass through checkKeyword()")

    # ------------------------------------------------------------ R02.4
    constness_predicates(ctx)
    mirrored_slots(ctx)
    overload_order(ctx)
    const_this_protocol(ctx)
    runtime_sized_allocations_checked(ctx)
    keyword_matching_polarity(ctx)
    unchecked_extractor_needs_const_ok(ctx)
    guarded_overload_does_not_end_the_dispatch(ctx)
    temporary_argument_tuples_are_released(ctx)
    collapsed_overload_sets_keep_every_overload(ctx)
    fetched_elements_are_released(ctx)


def _canon_arm(db, f, stmts, label):
    """Canonical form of a switch arm of a constness predicate:
       ('const', sub) / ('not-const', sub)  for  [!]is_const(type->as_<sub>_type()->_pointing_at)
       ('self', sub, field)                 for  <same predicate>(type->as_<sub>_type()-><field>)
       ('other', text)"""
    rets = [x for st in stmts for x in walk(st) if x.get("k") == "ret"]
    # locals introduced in the arm (`CPPType *target = ...; return !is_const(target);`) are read through
    env = {}
    flat = []
    for st in stmts:
        flat += st.get("s", []) if st.get("k") == "block" else [st]
    for st in flat:
        if st.get("k") == "decls":
            for d in st["d"]:
                if d.get("init") is not None:
                    env[d["d"]] = d["init"]
    if len(rets) != 1 or any(st.get("k") not in ("decls", "ret") for st in flat):
        return ("other", " ; ".join(show(st)[:60] for st in stmts))

    def thru(n):
        n = strip_casts(peel(n))
        seen = 0
        while n is not None and n.get("k") == "ref" and n.get("d") in env and seen < 8:
            n = strip_casts(peel(env[n["d"]]))
            seen += 1
        return n
    e = thru(rets[0].get("e"))
    neg = False
    while e is not None:
        if e.get("k") == "un" and e.get("op") == "!":
            neg = not neg
            e = thru(e["e"])
            continue
        # `x == false`, `x != true`, `false == x`
        if e.get("k") == "bin" and e.get("op") in ("==", "!="):
            l, r = thru(e["x"]), thru(e["y"])
            lit, other = (r, l) if (r is not None and r.get("k") == "bool") else ((l, r) if (l is not None and l.get("k") == "bool") else (None, None))
            if lit is not None:
                if bool(lit.get("v")) != (e["op"] == "=="):
                    neg = not neg
                e = other
                continue
        break
    if e is None or e.get("k") != "call" or len(e.get("a", [])) != 1:
        return ("other", show(rets[0])[:80])
    arg = thru(e["a"][0])
    sub = fld = None
    if arg is not None and arg.get("k") == "mem":
        fld = arg["n"].split("::")[-1]
        b = thru(arg.get("b"))
        if b is not None and b.get("k") == "call" and callee_short(b).startswith("as_"):
            sub = callee_short(b)[3:].replace("_type", "")
    if e.get("f") == "TypeManager::is_const" and fld == "_pointing_at":
        return ("not-const" if neg else "const", sub)
    if e.get("f") == f.name and not neg:
        return ("self", sub, fld)
    return ("other", show(rets[0])[:80])


def constness_predicates(ctx):
    """R02.4: what decides `const_ok` for a pointer/reference parameter and the constness of a returned wrapper."""
    from .C04 import switch_arms
    db = ctx.db
    ctx.rule("R02.4", "TypeManager::is_const_pointer_or_ref / is_non_const_pointer_or_ref: a pointer and a reference are judged by the constness of what they point at (the two predicates are each other's negation there), const and typedef wrappers are looked through")
    en = db.enums.get("CPPDeclaration::SubType")
    if en is None:
        ctx.broken("enum CPPDeclaration::SubType not found")
    names = {c["v"]: c["n"].split("::")[-1] for c in en["consts"]}
    want = {"TypeManager::is_const_pointer_or_ref": "const", "TypeManager::is_non_const_pointer_or_ref": "not-const"}
    n = 0
    for fname, pol in want.items():
        f = db.fn(fname)
        sw = [x for x in f.walk() if x.get("k") == "switch" and any(c.get("k") == "call" and callee_short(c) == "get_subtype" for c in walk(x["c"]))]
        if len(sw) != 1:
            ctx.broken("%s: subtype switch not found" % fname)
        arms = {}
        for labs, stmts in switch_arms(sw[0]):
            for v in labs:
                arms[names.get(v, v)] = stmts
        short = fname.split("::")[-1]
        for lab, sub in (("ST_pointer", "pointer"), ("ST_reference", "reference")):
            n += 1
            got = _canon_arm(db, f, arms.get(lab, []), lab)
            ctx.ob("R02.4", "%s|%s" % (short, lab), got == (pol, sub), f.loc(arms[lab][0]) if arms.get(lab) else f.loc(),
                   "a %s is judged by %s; expected %sis_const(type->as_%s_type()->_pointing_at)" % (sub, got, "!" if pol == "not-const" else "", sub))
        for lab, sub, fld in (("ST_const", "const", "_wrapped_around"), ("ST_typedef", "typedef", "_type")):
            n += 1
            got = _canon_arm(db, f, arms.get(lab, []), lab)
            ctx.ob("R02.4", "%s|%s" % (short, lab), got == ("self", sub, fld), f.loc(arms[lab][0]) if arms.get(lab) else f.loc(),
                   "a %s wrapper is looked through: %s" % (sub, got))
    ctx.floor("R02.4", "constness predicate arms", n, 8)




def mirrored_slots(ctx):
    """R02.5: Python 3 has no nb_divide; write_module_class mirrors a non-integer operator/ (and operator/=) into
    nb_true_divide (nb_inplace_true_divide).  One piece of code builds both mirrors, so the wrapper kind - plain binary
    vs in-place, which decides whether `x /= y` returns self - must be taken from the slot being mirrored."""
    db = ctx.db
    ctx.rule("R02.5", "a slot entry synthesised under a computed slot name (the true-divide mirrors) takes its _wrapper_type from the entry it mirrors, never a constant; the in-place mirror name is chosen exactly for the in-place source slot")
    f = db.fn("InterfaceMakerPythonNative::write_module_class")
    n = 0
    for st in f.walk():
        if st.get("k") != "decls":
            continue
        for d in st["d"]:
            if "SlottedFunctionDef" not in d.get("t", "") or "&" in d.get("t", "") or "*" in d.get("t", ""):
                continue
            # assignments through this local
            loc_name = wt = None
            for x in f.walk():
                t = assigned_target(x)
                if not t:
                    continue
                fl = field_of(t[0]) or ""
                b = base_of(t[0])
                if b is None or (local_ref(b) or {}).get("d") != d["d"]:
                    continue
                if fl.endswith("_answer_location"):
                    loc_name = (x, t[1])
                if fl.endswith("_wrapper_type"):
                    wt = (x, t[1])
            if loc_name is None or wt is None:
                continue
            src = strip_casts(peel(loc_name[1]))
            while src is not None and src.get("k") == "ctor" and len([q for q in src.get("a", []) if q.get("k") != "defarg"]) == 1:
                src = strip_casts(peel(src["a"][0]))
            if src is None or src.get("k") == "str":
                continue        # a fixed slot: R02.1 judges its wrapper kind against the table
            n += 1
            rhs = strip_casts(peel(wt[1]))
            ok = rhs is not None and rhs.get("k") == "mem" and rhs.get("n", "").endswith("SlottedFunctionDef::_wrapper_type")
            if not ok and rhs is not None and rhs.get("k") == "cond":
                # (key == "nb_inplace_divide") ? WT_inplace_binary_operator : WT_binary_operator
                c = G.cmp_atom(peel(rhs.get("c")))
                lits = [y.get("v") for y in walk(rhs["c"]) if y.get("k") == "str"]
                arm = lambda a: (strip_casts(peel(a)) or {}).get("n", "").split("::")[-1]
                if c and c[0] in ("==", "!=") and len(lits) == 1 and "divide" in lits[0]:
                    inplace_when_true = ("inplace" in lits[0]) == (c[0] == "==")
                    t_arm, e_arm = arm(rhs["x"]), arm(rhs["y"])
                    ok = {t_arm, e_arm} == {"WT_inplace_binary_operator", "WT_binary_operator"} and (("inplace" in t_arm) == inplace_when_true)
            ctx.ob("R02.5", "write_module_class|%s|wrapper-type-of-mirrored-slot" % d["n"], ok, f.loc(wt[0]),
                   "`%s` for a slot whose name is computed (`%s`): %s" % (show(wt[0]), show(loc_name[0])[:50], "copied from the mirrored entry" if ok else "a fixed wrapper kind cannot be right for both the plain and the in-place mirror"))
    ctx.floor("R02.5", "slot entries synthesised under a computed name", n, 1)
    # the in-place mirror name goes with the in-place source slot
    pairs = []
    for x in f.walk():
        if x.get("k") == "if":
            c = G.cmp_atom(peel(x.get("c")))
            if c and c[0] == "==":
                lits = [y.get("v") for y in walk(x["c"]) if y.get("k") == "str"]
                then_l = [y.get("v") for y in walk(x.get("then") or {}) if y.get("k") == "str"]
                else_l = [y.get("v") for y in walk(x.get("else") or {}) if y.get("k") == "str"]
                if lits in (["nb_inplace_divide"], ["nb_divide"]) and (then_l or else_l):
                    pairs.append((x, lits[0], then_l, else_l))
    for x, lit, then_l, else_l in pairs:
        want_then = "nb_inplace_true_divide" if lit == "nb_inplace_divide" else "nb_true_divide"
        want_else = "nb_true_divide" if lit == "nb_inplace_divide" else "nb_inplace_true_divide"
        ok = then_l == [want_then] and else_l == [want_else]
        ctx.ob("R02.5", "write_module_class|true-divide-mirror-names", ok, f.loc(x), "key == %s -> %s, else %s" % (lit, then_l, else_l))
    ctx.floor("R02.5", "mirror-name selections", len(pairs), 1)




def overload_order(ctx):
    """R02.6: the -python-native dispatcher tries the overloads of one arity in descending get_type_sort() order and takes
    the first whose argument conversion succeeds.  A `bool` parameter accepts every object (PyObject_IsTrue), so it
    must rank below every numeric type, and - TypeManager::is_integer() being true for bool - the integer rank must
    exclude bool."""
    db = ctx.db
    ctx.rule("R02.6", "get_type_sort ranks bool below float, double, integer, long long and unsigned long long, and the integer rank is given only to non-bool types")
    fns = db.fns("get_type_sort")
    if not fns:
        ctx.broken("get_type_sort not found")
    f = fns[0]
    rank = {}
    rets = [r for r in f.walk() if r.get("k") == "ret" and const_int(r.get("e")) is not None]
    preds = ("is_bool", "is_integer", "is_double", "is_float", "is_longlong", "is_unsigned_longlong")
    for r in rets:
        k = const_int(r["e"])
        for pn in preds:
            if G.gated(f, r, G.edges_where(f, G.pred_true("TypeManager::" + pn, pn))):
                # the innermost: the predicate whose true edge leads here and no other rank's
                rank.setdefault(pn, []).append((k, r))
    # a return gated by several predicates (the integer one is gated by is_integer only) - keep, per predicate, the
    # return that is NOT gated by a predicate tested earlier in the chain: the smallest set wins
    final = {}
    for pn, lst in rank.items():
        best = None
        for k, r in lst:
            others = [q for q in preds if q != pn and any(r is rr for kk, rr in rank.get(q, []))]
            if best is None or len(others) < best[2]:
                best = (k, r, len(others))
        final[pn] = best
    missing = [pn for pn in preds if pn not in final]
    if missing:
        ctx.broken("get_type_sort: no rank found for %s" % missing)
    kb = final["is_bool"][0]
    for pn in preds[1:]:
        ctx.ob("R02.6", "get_type_sort|bool-below-%s" % pn[3:], kb < final[pn][0], f.loc(final[pn][1]),
               "rank(bool) = %d, rank(%s) = %d (the higher rank is tried first)" % (kb, pn[3:], final[pn][0]))
    ri = final["is_integer"][1]
    ok = G.gated(f, ri, G.edges_where(f, G.pred_false("TypeManager::is_bool", "is_bool")))
    ctx.ob("R02.6", "get_type_sort|integer-rank-excludes-bool", ok, f.loc(ri),
           "the integer rank %d is %sgiven only when !is_bool(type) (is_integer() is true for bool)" % (final["is_integer"][0], "" if ok else "NOT "))




def const_this_protocol(ctx):
    """R02.7: a generated wrapper gets `this` either with Dtool_Call_ExtractThisPointer (accepts a const wrapper; the
    body must then verify constness per overload: write_function_forset(..., verify_const = true)) or with
    Dtool_Call_ExtractThisPointer_NonConst (raises TypeError for a const wrapper; the body may skip the test).  Emitting
    the permissive extractor together with verify_const = false lets Python mutate a const object."""
    db = ctx.db
    ctx.rule("R02.7", "in the python-native generator, every write_function_forset(..., verify_const = false) is preceded in its function by the emission of the _NonConst `this` extractor (never by the const-accepting one)")
    n = 0
    for f in db.functions:
        if not f.file.endswith("interfaceMakerPythonNative.cxx"):
            continue
        events = []
        for x in f.walk():
            if x.get("k") == "str" and "Dtool_Call_ExtractThisPointer" in (x.get("v") or ""):
                events.append((f.line_of(x), x.get("i", 0), "extract", "_NonConst" in x["v"], x))
            if x.get("k") == "call" and callee_short(x) == "write_function_forset":
                args = x.get("a", [])
                vc = args[11] if len(args) > 11 else None
                if vc is not None and vc.get("k") == "defarg":
                    vc = vc.get("e")
                val = const_int(vc) if vc is not None else 1
                events.append((f.line_of(x), x.get("i", 0), "forset", val, x))
        events.sort(key=lambda e: (e[0], e[1]))
        last = None
        for line, _, kind, val, node in events:
            if kind == "extract":
                last = (val, node)
            elif kind == "forset" and val == 0:
                n += 1
                if last is None:
                    ctx.info("R02.7 %s: verify_const = false with no `this` extraction in the function (static / no this)" % f.loc(node))
                    continue
                ok = bool(last[0])
                ctx.ob("R02.7", "%s|line-order|verify_const-false-needs-nonconst-this" % f.name.split("::")[-1], ok, f.loc(node),
                       "write_function_forset(..., verify_const = false) follows the emission of %s" % ("the _NonConst extractor" if ok else "the const-accepting extractor (line %d): a const object can be mutated through this wrapper" % f.line_of(last[1])))
    ctx.floor("R02.7", "wrappers written with verify_const = false", n, 2)



def runtime_sized_allocations_checked(ctx):
    """R02.8: a Python allocation whose size comes from the wrapped program (MAKE_SEQ: the user's length getter) can fail
    for reasons other than exhaustion - PyTuple_New(-1) returns NULL with SystemError set.  The emitted code must test the
    result before it uses it (the loop is skipped for a negative count, and the error path runs Py_DECREF on it).
    Decided on the emitted text of the generator function, in emission order.  (F-C02b.)"""
    import re
    db = ctx.db
    ctx.rule("R02.8", "in the python-native generator, text that allocates `X = Py{Tuple,List}_New(<an identifier, i.e. a run-time size>)` is followed, before any other mention of X, by a test of X against null that returns")
    n = 0
    for f in db.functions:
        if not f.file.endswith("interfaceMakerPythonNative.cxx"):
            continue
        lits = [(f.line_of(x), x.get("i", 0), x.get("v") or "", x) for x in f.walk() if x.get("k") == "str"]
        lits.sort(key=lambda e: (e[0], e[1]))
        text = ""
        origin = []
        for line, _, v, node in lits:
            origin.append((len(text), node))
            text += v
        for m in re.finditer(r"(\w+)\s*=\s*Py(?:Tuple|List)_New\(\s*([A-Za-z_]\w*)\s*\)\s*;", text):
            var, size = m.group(1), m.group(2)
            n += 1
            rest = text[m.end():]
            nxt = re.search(r"\b%s\b" % re.escape(var), rest)
            ok = False
            if nxt:
                seg = rest[max(0, nxt.start() - 8):nxt.end() + 40]
                ok = bool(re.search(r"if\s*\(\s*(?:%s\s*==\s*(?:nullptr|NULL|0)|!\s*%s|(?:nullptr|NULL)\s*==\s*%s)\s*\)\s*\{?\s*return" % (var, var, var), seg))
            node = [nd for off, nd in origin if off <= m.start()][-1]
            ctx.ob("R02.8", "%s|%s=New(%s)|tested-before-use" % (f.name.split("::")[-1], var, size), ok, f.loc(node),
                   "`%s` allocated with the run-time size `%s` is %stested for NULL before its first use" % (var, size, "" if ok else "NOT "))
    ctx.floor("R02.8", "allocations with a run-time size in emitted code", n, 1)


STRING_CMP_API = {
    # callee: True if a non-zero result means EQUAL, False if zero means equal (strcmp convention)
    "_PyUnicode_EqualToASCIIString": True, "PyUnicode_EqualToUTF8": True, "_PyUnicode_EqualToASCIIId": True,
    "PyUnicode_CompareWithASCIIString": False, "strcmp": False, "PyUnicode_Compare": False, "strncmp": False,
}


def keyword_matching_polarity(ctx):
    """R02.9: a single argument passed by keyword is accepted iff the keyword is the parameter's name: `f(bogus=1)` must
    raise TypeError and `f(amount=1)` must run.  The generated wrappers delegate this to Dtool_ExtractArg /
    Dtool_ExtractOptionalArg (py_support.cxx, pasted into every module), which compare the key with CPython string
    functions of two opposite conventions (strcmp-like: 0 = equal; Equal-like: non-zero = equal).  In the `return` that
    answers "is this the keyword" every comparison must MEAN equal under its function's own convention.  Decided for the
    preprocessor branch of the sandbox's Python (3.11); the other version branches are not seen.  (Seed S6-C02.)"""
    db = ctx.db
    ctx.rule("R02.9", "in Dtool_ExtractArg / Dtool_ExtractOptionalArg every string comparison of the dictionary key with the keyword inside a return expression is true iff the two are equal, by the convention of the CPython/C function used")
    n = 0
    for f in db.functions:
        if f.name not in ("Dtool_ExtractArg", "Dtool_ExtractOptionalArg") or "py_support" not in f.file:
            continue
        for r in f.walk():
            if r.get("k") != "ret" or r.get("e") is None:
                continue
            for c in walk(r["e"]):
                if c.get("k") != "call" or callee_short(c) not in STRING_CMP_API:
                    continue
                n += 1
                nonzero_is_equal = STRING_CMP_API[callee_short(c)]
                # how is the result used: walk up to the enclosing comparison / negation inside the return expression
                means_nonzero = True        # bare use in a boolean context: true iff result != 0
                for anc in f.ancestors(c):
                    if anc is r:
                        break
                    if anc.get("k") == "bin" and anc.get("op") in ("==", "!="):
                        other = anc["y"] if any(x is c for x in walk(anc["x"])) else anc["x"]
                        if const_int(other) == 0:
                            if anc["op"] == "==":
                                means_nonzero = not means_nonzero
                            continue
                    if anc.get("k") == "un" and anc.get("op") == "!":
                        means_nonzero = not means_nonzero
                    if anc.get("k") == "bin" and anc.get("op") in ("&&", "||"):
                        break
                equal = (means_nonzero == nonzero_is_equal)
                ctx.ob("R02.9", "%s(%d)|%s|true-iff-equal" % (f.name, len(f.params), callee_short(c)), equal, f.loc(c),
                       "`%s` as used in the return is true iff the key %s the keyword" % (show(c)[:50], "EQUALS" if equal else "DIFFERS from"))
    ctx.floor("R02.9", "keyword comparisons in the argument extractors", n, 2)


def unchecked_extractor_needs_const_ok(ctx):
    """R02.10: a wrapped-object argument is extracted either with DTOOL_Call_GetPointerThisClass(..., const_ok, ...),
    which refuses a const wrapper when the C++ parameter is a non-const pointer/reference, or - "slightly simpler" - with
    DtoolInstance_GetPointer(), which does not look at constness at all.  The second may be emitted only where const_ok
    holds; otherwise Python can pass a const object to a function that mutates it.  (Seed S7-C02.)"""
    db = ctx.db
    ctx.rule("R02.10", "in write_function_instance, text that extracts an argument with DtoolInstance_GetPointer( is emitted only behind `const_ok`")
    f = db.fn("InterfaceMakerPythonNative::write_function_instance")
    ok_decl = None
    for y in f.walk():
        if y.get("k") == "decls":
            for d in y["d"]:
                if d.get("n") == "const_ok" and (d.get("ct") or d.get("t")) == "bool":
                    ok_decl = d
    if ok_decl is None:
        ctx.broken("R02.10: the local bool `const_ok` of write_function_instance was not found")
    edges = G.edges_where(f, G.local_true(ok_decl["d"]))
    lits = [x for x in f.walk() if x.get("k") == "str" and "DtoolInstance_GetPointer(" in (x.get("v") or "")]
    for i, x in enumerate(lits):
        ok = bool(edges) and G.gated(f, x, edges)
        ctx.ob("R02.10", "write_function_instance|DtoolInstance_GetPointer#%d|behind-const_ok" % i, ok, f.loc(x),
               "the constness-blind extractor is %semitted only where const_ok holds" % ("" if ok else "NOT "))
    ctx.floor("R02.10", "emissions of DtoolInstance_GetPointer in write_function_instance", len(lits), 1)


def guarded_overload_does_not_end_the_dispatch(ctx):
    """R02.11: write_function_forset() tries the overloads with the same number of arguments one after the other.  When
    the code written for one of them returns on every path, the rest is dead and is left out (`caught_all`), together
    with the final "bad arguments" return.  That is only true of code written UNconditionally: an overload written inside
    `if (!DtoolInstance_IS_CONST(self)) {` is skipped at run time for a const object, which must then reach the next
    (const) overload.  (Seed S8-C02: the guard around `caught_all = true` dropped in the first loop; `cv[1]` on a const
    wrapper fell off the end of the slot function.)"""
    db = ctx.db
    ctx.rule("R02.11", "in write_function_forset, inside a loop that writes an overload under a run-time `if (` chosen by a local flag L, the outer dead-code flag is set true only where L is false")
    fs = [g for g in db.functions if g.name == "InterfaceMakerPythonNative::write_function_forset"]
    if not fs:
        ctx.broken("R02.11: write_function_forset not found")
        return
    f = fs[0]
    n = 0
    for lp in f.walk():
        if lp.get("k") not in ("while", "for", "forrange"):
            continue
        body = list(walk(lp.get("body") or {}))
        if any(y is not lp and y.get("k") in ("while", "for", "forrange") and any(z.get("k") == "str" and (z.get("v") or "").lstrip().startswith("if (") for z in walk(y)) for y in body):
            continue        # judge the innermost loop that does the writing
        inner_decls = {}
        for y in body:
            if y.get("k") == "decls":
                for dd in y["d"]:
                    if dd.get("ct") == "bool":
                        inner_decls[dd["d"]] = dd.get("n")
        guards = {}
        for y in body:
            if y.get("k") == "str" and (y.get("v") or "").lstrip().startswith("if ("):
                for d, nm in inner_decls.items():
                    e = G.edges_where(f, G.local_true(d))
                    if e and G.gated(f, y, e):
                        guards[d] = nm
        if not guards:
            continue
        for y in body:
            t = assigned_target(y)
            r = local_ref(t[0]) if t else None
            if r is None or r.get("d") in inner_decls or const_int(t[1]) != 1 or r.get("t") not in ("bool", "_Bool"):
                continue
            for d, nm in guards.items():
                n += 1
                e = G.edges_where(f, lambda atom, truth, d=d: (not truth) and (local_ref(atom) or {}).get("d") == d)
                ok = bool(e) and G.gated(f, y, e)
                ctx.ob("R02.11", "write_function_forset|%s=true#%d|only-for-unguarded-overloads" % (r.get("n"), n), ok, f.loc(y),
                       "`%s = true` is behind `!%s`" % (r.get("n"), nm) if ok else
                       "`%s = true` can be reached with `%s` true: an overload written under a run-time `if` ends the dispatch" % (r.get("n"), nm))
    ctx.floor("R02.11", "dead-code flags set in loops that write guarded overloads", n, 2)


def temporary_argument_tuples_are_released(ctx):
    """R02.12: slot wrappers whose Python signature has separate arguments (mp_ass_subscript, __setattr__, the ternary
    number slots, property setters with a key) pack them into a temporary tuple - `PyObject *args = PyTuple_Pack(...)` is
    written - and then let write_function_forset() write the overload dispatch on `args`.  Every return written INSIDE
    that dispatch leaves the wrapper, so it must release the tuple first: the dispatch is asked for with RF_decref_args.
    The `Py_DECREF(args)` written after the dispatch only serves the fall-through.  (Seed S9-C02: RF_decref_args dropped
    for mp_ass_subscript; every successful `obj[key] = value` leaked the key and the value.)"""
    db = ctx.db
    ctx.rule("R02.12", "in the generator, a write_function_forset(...) that follows the emission of `args = PyTuple_Pack/PyTuple_New` in the same block passes return flags that include RF_decref_args")
    n = 0
    for f in db.functions:
        if not f.name.startswith("InterfaceMakerPythonNative::"):
            continue
        for blk in f.walk():
            if blk.get("k") != "block":
                continue
            packed = False
            for st in blk.get("s", []):
                if st.get("k") not in ("if", "for", "while", "forrange", "switch", "block", "case", "default", "do") and \
                   any(z.get("k") == "str" and "args = PyTuple_" in (z.get("v") or "") for z in walk(st)):
                    packed = True
                    continue
                if not packed:
                    continue
                for c in walk(st):
                    if c.get("k") == "call" and callee_short(c) == "write_function_forset":
                        n += 1
                        flags = [a for a in c.get("a", []) if any(z.get("k") == "ref" and "::RF_" in (z.get("n") or "") or (z.get("k") == "ref" and (z.get("n") or "").startswith("RF_")) for z in walk(a)) or
                                 (local_ref(a) or {}).get("n") == "return_flags"]
                        ok = any(any(z.get("k") == "ref" and (z.get("n") or "").endswith("RF_decref_args") for z in walk(a)) for a in flags)
                        ctx.ob("R02.12", "%s@%s|dispatch-on-packed-args|releases-the-tuple" % (f.name.split("::")[-1], f.loc(c).split(":")[-1]), ok, f.loc(c),
                               "the dispatch written on the temporary tuple is asked to release it before each return" if ok else
                               "the dispatch on the temporary `args` tuple returns without releasing it")
                        packed = False
    ctx.floor("R02.12", "dispatches written on a packed argument tuple", n, 3)


def collapsed_overload_sets_keep_every_overload(ctx):
    """R02.13: the dispatcher is written from `map_sets`: number of arguments -> the overloads callable with that many.
    Default arguments make neighbouring sets nest (f(int, int = 7) is in the sets of 1 and of 2); collapse_default_remaps()
    folds such a run into its highest entry and erases the others.  The erased entries may hold MORE overloads than the
    kept one (pick(const string &) lives only in the set of 1), so before `map_sets.erase(first, kept)` the kept entry
    must receive the superset: `kept->second = first->second` on every path to the erase.
    (Seed S10-C02: that assignment put under an always-false condition; overloads vanished from the dispatcher.)"""
    db = ctx.db
    ctx.rule("R02.13", "in collapse_default_remaps, the range erase(first, kept) of the overload map is reached only through `kept->second = first->second`")
    fs = [g for g in db.functions if g.name == "InterfaceMakerPythonNative::collapse_default_remaps"]
    if not fs:
        ctx.broken("R02.13: collapse_default_remaps not found")
        return
    f = fs[0]
    p0 = (f.params or [{}])[0].get("d")
    erases = [c for c in f.walk() if c.get("k") == "call" and callee_short(c) == "erase" and "this" in c and (local_ref(c["this"]) or {}).get("d") == p0 and len(c.get("a", [])) == 2]
    first = None
    for y in f.walk():
        if f.cfg.locate(y) is not None:
            first = y
            break
    n = 0
    for c in erases:
        n += 1
        a, b = local_ref(c["a"][0]), local_ref(c["a"][1])
        copies = []
        if a is not None and b is not None:
            for y in f.walk():
                if y.get("k") == "call" and callee_short(y) == "operator=" and len(y.get("a", [])) >= 1:
                    parts = ([y.get("this")] if "this" in y else []) + list(y.get("a", []))
                    if len(parts) >= 2:
                        tgt, val = strip_casts(peel(parts[0])), strip_casts(peel(parts[1]))
                        if tgt is not None and val is not None and tgt.get("k") == "mem" and (tgt.get("n") or "").endswith("pair::second") and val.get("k") == "mem" and (val.get("n") or "").endswith("pair::second") and \
                           any(z.get("k") == "ref" and z.get("d") == b["d"] for z in walk(tgt)) and any(z.get("k") == "ref" and z.get("d") == a["d"] for z in walk(val)):
                            copies.append(y)
        ok = bool(copies) and first is not None and not G.reaches_avoiding(f, first, copies, c)
        ctx.ob("R02.13", "collapse_default_remaps|erase(%s,%s)|kept-set-gets-the-superset" % ((a or {}).get("n", "?"), (b or {}).get("n", "?")), ok, f.loc(c),
               "the kept entry receives the overloads of the first erased entry on every path to the erase" if ok else
               "the lower-count sets are erased without their overloads being copied into the kept set on every path")
    ctx.floor("R02.13", "range erases of the overload map", n, 1)


RELEASERS = ("Py_DECREF", "Py_XDECREF", "_Py_DECREF", "_Py_XDECREF", "Py_CLEAR", "Py_DecRef")
STEALERS = ("PyTuple_SET_ITEM", "PyTuple_SetItem", "PyList_SET_ITEM", "PyList_SetItem", "PyModule_AddObject")


def fetched_elements_are_released(ctx):
    """R02.14: the property wrappers of the runtime (py_wrappers.cxx) reach the C++ container through function pointers:
    `_getitem_func(self, i)` returns a NEW reference, as sq_item does - for a wrapped C++ value, the only reference to a
    freshly made wrapper object.  A local that receives it must, on every path on which it is not null, be returned,
    handed to a function that steals it, or released before the function returns or the loop fetches the next one.
    (F-C02c: `x in prop`, prop.count(), prop.index(), prop.remove() compared the element and dropped the reference;
    150 queries leaked 350 C++ objects.)"""
    db = ctx.db
    ctx.rule("R02.14", "in py_wrappers.cxx a local initialised from a `_getitem_func(...)` call is returned, stolen or DECREF'd on every non-null path to a return or to the next fetch")
    n = 0
    for f in db.functions:
        if not f.file.endswith("py_wrappers.cxx"):
            continue
        cfg = f.cfg
        for y in f.walk():
            if y.get("k") != "decls":
                continue
            for dd in y["d"]:
                init = strip_casts(peel(dd.get("init"))) if dd.get("init") is not None else None
                if not (init is not None and init.get("k") == "call" and init.get("fe") is not None and
                        (field_of(strip_casts(peel(init["fe"]))) or "").endswith("_getitem_func")):
                    continue
                n += 1
                d = dd["d"]
                loc0 = cfg.locate(init) or cfg.locate(y)
                if loc0 is None:
                    ctx.ob("R02.14", "%s|%s|released" % (f.name, dd.get("n")), False, f.loc(y), "the fetch was not located in the CFG")
                    continue
                # statements that dispose of the reference
                disp = []
                for z in f.walk():
                    if z.get("k") == "call" and (callee_short(z) in RELEASERS or callee_short(z) in STEALERS) and any((local_ref(strip_casts(peel(a))) or {}).get("d") == d for a in z.get("a", [])):
                        disp.append(z)
                    if z.get("k") == "ret" and z.get("e") is not None and any(w.get("k") == "ref" and w.get("d") == d for w in walk(z["e"])):
                        disp.append(z)
                    if z.get("k") == "call" and callee_short(z) in ("Py_BuildValue",) and False:
                        disp.append(z)
                disp_locs = [cfg.locate(z) for z in disp if cfg.locate(z) is not None]
                null_edges = G.edges_where(f, G.local_is_null(d, null=True)) + G.edges_where(f, lambda atom, truth, d=d: (not truth) and (local_ref(atom) or {}).get("d") == d)
                # straight-line disposal in the fetch's own block
                if any(b == loc0[0] and i > loc0[1] for b, i in disp_locs):
                    ctx.ob("R02.14", "%s|%s|released" % (f.name, dd.get("n")), True, f.loc(y), "disposed of in the same basic block as the fetch")
                    continue
                cut_blocks = {b for b, i in disp_locs}
                reach = cfg.reachable(start=loc0[0], cut_edges=null_edges, cut_blocks=cut_blocks - {loc0[0]})
                rets = [z for z in f.walk() if z.get("k") == "ret"]
                bad = None
                for r in rets:
                    lr = cfg.locate(r)
                    if lr is not None and lr[0] in reach and lr[0] not in cut_blocks and not (lr[0] == loc0[0] and lr[1] < loc0[1]):
                        bad = r
                        break
                # next iteration: the fetch block reachable again from its successors without disposal
                if bad is None:
                    for idx, s_ in enumerate(cfg.blocks[loc0[0]].succs):
                        if s_ is None or (loc0[0], idx) in set(null_edges):
                            continue
                        again = cfg.reachable(start=s_, cut_edges=null_edges, cut_blocks=cut_blocks - {loc0[0]})
                        if loc0[0] in again and loc0[0] not in cut_blocks:
                            bad = y
                            break
                ctx.ob("R02.14", "%s|%s|released" % (f.name, dd.get("n")), bad is None, f.loc(bad) if bad is not None else f.loc(y),
                       "the new reference is returned, stolen or released on every non-null path" if bad is None else
                       "the new reference in `%s` can reach %s without having been released" % (dd.get("n"), "a return" if bad is not y else "the next fetch"))
    ctx.floor("R02.14", "locals holding a fetched element", n, 10)
