"""C13 — loading several libraries yields one consistent database.

Decided:
  R13.1 no query member can read the primary tables before check_latest().
  R13.2 the by-name caches are invalidated after a merge and rebuilt from the
        right table with the right key, bit <-> table <-> freshen agree.
  R13.3 merge_from renumbers every record of every kind it copies.
  R13.4 each module gets its own contiguous index range.
Not decided: order independence / "fully defined wins" of merge_with (a
statement about histories of run-time contents).
"""
import re

from ..facts import peel, strip_casts, show, walk, cond_atom
from .common import (callee_short, field_of, base_of, deref, assigned_target, const_int,
                     local_ref, enclosing_loops, loop_container)

LEVEL = "proof"
EXPLANATION = ("Freshness protocol (check_latest before any read of the primary tables, cache invalidation after merge, "
               "bit/table/freshen agreement), merge coverage over the six record kinds and module index-range bookkeeping; "
               "all paths of the named members.")
TRUSTED = ["clang 14 AST/CFG", "std::map semantics"]
ASSUMPTIONS = ["merge_with semantics (which definition wins) are not decided", "single-threaded use of the database singleton"]

MAPS = ["_type_map", "_function_map", "_wrapper_map", "_manifest_map", "_element_map", "_make_seq_map"]
VECS = ["_global_types", "_all_types", "_global_functions", "_all_functions", "_global_manifests", "_global_elements"]
CACHES = ["_types_by_name", "_types_by_scoped_name", "_types_by_true_name", "_manifests_by_name",
          "_elements_by_name", "_elements_by_scoped_name"]
PRIMARY = set("InterrogateDatabase::" + x for x in MAPS + VECS + CACHES)

# members that are not part of the query interface, with the reason
NOT_QUERY = {
    "InterrogateDatabase": "constructor", "get_ptr": "singleton accessor", "request_module": "registers a request; touches no table",
    "set_error_flag": "builder API", "get_next_index": "builder API",
    "add_type": "builder/loader API (mutator)", "add_function": "builder/loader API", "add_wrapper": "builder/loader API",
    "add_manifest": "builder/loader API", "add_element": "builder/loader API", "add_make_seq": "builder/loader API",
    "remove_type": "builder API", "remap_indices": "builder/loader API", "write_text": "generator output", "write": "generator output",
    "read": "loader", "read_new": "loader", "load_latest": "loader", "merge_from": "loader", "check_latest": "the freshness test itself",
    "lookup": "private helper, reached only from lookup_* after check_latest (checked)",
    "find_module": "module defs only", "binary_search_module": "module defs only", "binary_search_wrapper_hash": "module defs only",
}


def cache_rules(ctx, RID="R13.2"):
    """Cache invalidation / table-bit-freshen agreement (shared with C20: lookups are exact only if the
    by-name tables are rebuilt after every load)."""
    db = ctx.db
    lk = db.fn("InterrogateDatabase::lookup")
    # ------------------------------------------------------------- R13.2
    mf = db.fn("InterrogateDatabase::merge_from")
    cfg = mf.cfg
    resets = []
    for n in mf.walk():
        t = assigned_target(n)
        if t and field_of(t[0]) == "InterrogateDatabase::_lookups_fresh" and const_int(t[1]) == 0:
            resets.append(n)
    muts = [c for c in mf.walk() if c.get("k") == "call" and c.get("f", "").startswith("InterrogateDatabase::") and callee_short(c).startswith(("add_", "update_"))]
    muts += [c for c in mf.walk() if c.get("k") == "call" and callee_short(c) in ("push_back", "merge_with", "remap_indices") and "this" in c]
    ok = False
    why = "no `_lookups_fresh = 0` in merge_from"
    if resets:
        rl = cfg.locate(resets[-1])
        # every mutation must reach exit only through the reset, and no mutation after it
        after = set()
        b = cfg.blocks[rl[0]]
        later_same = [e for e in b.elems[rl[1] + 1:]]
        after_blocks = set()
        for s in b.succs:
            if s is not None:
                after_blocks |= cfg.reachable(s)
        ok = True
        for m in muts:
            ml = cfg.locate(m)
            if ml is None:
                continue
            if ml[0] in after_blocks and ml[0] != rl[0]:
                ok = False
                why = "mutation %s can run after the reset" % show(m)
            if ml[0] == rl[0] and ml[1] > rl[1]:
                ok = False
                why = "mutation %s follows the reset" % show(m)
            # exit reachable from the mutation without passing the reset block
            if cfg.exit in cfg.reachable(ml[0], cut_blocks=[rl[0]]) and ml[0] != rl[0]:
                ok = False
                why = "a path from %s to the exit skips the reset" % show(m)
        if ok:
            why = "`_lookups_fresh = 0` post-dominates all %d mutations" % len(muts)
    ctx.ob(RID, "merge_from|reset-after-last-mutation", ok, mf.loc(resets[-1]) if resets else mf.loc(), why)
    ctx.floor(RID, "mutations in merge_from", len(muts), 14)

    # lookup(): refresh iff bit clear, then set the bit
    p_type = [p for p in lk.params if p["t"].endswith("LookupType")]
    p_fresh = [p for p in lk.params if "(InterrogateDatabase::*)" in p["t"]]
    p_tab = [p for p in lk.params if p["t"].startswith("InterrogateDatabase::Lookup") or p["t"].startswith("Lookup")]
    if not (p_type and p_fresh and p_tab):
        ctx.broken("lookup(): parameters (table, type, freshen) not recognised: %s" % [p["t"] for p in lk.params])
    ok = False
    for n in lk.walk():
        if n.get("k") == "if":
            atom, pos = cond_atom(lk, n["c"])
            s = re.sub(r"[\s()]", "", show(atom)) if atom else ""
            if atom is not None and atom.get("k") == "bin" and atom["op"] == "==" and pos and "_lookups_fresh&" in s and s.endswith("==0") and p_type[0]["n"] in s:
                body = n["then"]
                called = any(x.get("k") == "call" and "fe" in x and p_fresh[0]["n"] in show(x["fe"]) for x in walk(body))
                setbit = any(x.get("k") == "bin" and x.get("op") == "|=" and field_of(x["x"]) == "InterrogateDatabase::_lookups_fresh" and p_type[0]["n"] in show(x["y"]) for x in walk(body))
                ok = called and setbit
    ctx.ob(RID, "lookup|refresh-iff-stale", ok, lk.loc(), "if ((_lookups_fresh & type) == 0) { (this->*freshen)(); _lookups_fresh |= type; }")
    finds = [c for c in lk.calls("std::map::find")]
    ok = len(finds) == 1 and local_ref(finds[0]["this"]) is not None and local_ref(finds[0]["this"])["d"] == p_tab[0]["d"]
    ctx.ob(RID, "lookup|searches-the-passed-table", ok, lk.loc(), "lookup() searches the table it was given")

    enum = db.enum("InterrogateDatabase::LookupType")
    vals = [c["v"] for c in enum["consts"]]
    ctx.ob(RID, "LookupType|distinct-single-bits", len(set(vals)) == len(vals) and all(v > 0 and v & (v - 1) == 0 for v in vals),
           "src/interrogatedb/interrogateDatabase.h:%d" % enum["line"], "LookupType values %s" % vals)
    n_l = 0
    for f in db.methods_of("InterrogateDatabase"):
        short = f.name.split("::")[-1]
        if not short.startswith("lookup_"):
            continue
        n_l += 1
        stem = short[len("lookup_"):]                     # type_by_name
        kind, key = stem.split("_by_")                    # type, name
        want_tab = "_%ss_by_%s" % (kind, key)
        want_bit = "LT_%s_%s" % (kind, key)
        want_fr = "freshen_%ss_by_%s" % (kind, key)
        calls = [c for c in f.calls("InterrogateDatabase::lookup")]
        good = False
        got = None
        if len(calls) == 1 and len(calls[0]["a"]) == 4:
            a = calls[0]["a"]
            tab = (field_of(a[1]) or "").split("::")[-1]
            bit = (strip_casts(a[2]) or {}).get("n", "").split("::")[-1]
            fr = None
            for x in walk(a[3]):
                if x.get("k") in ("ref", "mem") and "freshen" in x.get("n", ""):
                    fr = x["n"].split("::")[-1]
            got = (tab, bit, fr)
            good = got == (want_tab, want_bit, want_fr)
        ctx.ob(RID, "%s|table-bit-freshen" % short, good, f.loc(), "passes %s, expected %s" % (got, (want_tab, want_bit, want_fr)))
        # the freshen function
        fr = db.fn("InterrogateDatabase::" + want_fr)
        src_map = {"type": "_type_map", "manifest": "_manifest_map", "element": "_element_map"}[kind]
        getter = {"name": "get_name", "scoped_name": "get_scoped_name", "true_name": "get_true_name"}[key]
        cleared = any(c.get("k") == "call" and callee_short(c) == "clear" and (field_of(c.get("this")) or "").endswith("::" + want_tab) for c in fr.walk())
        filled = False
        for n in fr.walk():
            t = assigned_target(n)
            if not t:
                continue
            l = peel(t[0])
            if l is not None and l.get("k") == "call" and callee_short(l) == "operator[]" and (field_of(l["a"][0]) or "").endswith("::" + want_tab):
                keyexpr = peel(l["a"][1])
                kc = keyexpr if keyexpr.get("k") == "call" else None
                # the loop ranges over the source map
                lp = next(enclosing_loops(fr, n), None)
                cont = loop_container(fr, lp) if lp is not None else None
                filled = (kc is not None and callee_short(kc) == getter and (field_of(cont) or "").endswith("::" + src_map)
                          and (field_of(t[1]) or "").endswith("first"))
        ctx.ob(RID, "%s|rebuilds-%s-from-%s-by-%s" % (want_fr, want_tab, src_map, getter), cleared and filled, fr.loc(),
               "clears %s: %s; fills it from %s keyed by %s(): %s" % (want_tab, cleared, src_map, getter, filled))
    ctx.floor(RID, "lookup_* wrappers", n_l, 6)



def run(ctx):
    db = ctx.db
    ctx.rule("R13.1", "in every query member of InterrogateDatabase, check_latest() dominates every read of a primary table or by-name cache")
    ctx.rule("R13.2", "merge_from resets _lookups_fresh after its last mutation; lookup() refreshes iff the bit is clear and sets that bit; each lookup_* passes matching table, bit and freshen function; each freshen_* rebuilds its table from the right map and key")
    ctx.rule("R13.3", "merge_from copies every record of the six kinds and renumbers each copy with the merge remap; shared types are renumbered before merge_with and become global when either side is")
    ctx.rule("R13.4", "request_module assigns [old _next_index, +n) to a module with n indices and advances _next_index by n; read() rejects a file whose renumbered range differs")

    methods = db.methods_of("InterrogateDatabase")
    if len(methods) < 60:
        ctx.broken("InterrogateDatabase has only %d method bodies" % len(methods))
    n_query = 0
    for fn in methods:
        short = fn.name.split("::")[-1]
        if short.startswith("freshen_"):
            continue
        if short in NOT_QUERY:
            continue
        reads = [n for n in fn.walk() if n.get("k") == "mem" and n["n"] in PRIMARY]
        if not reads:
            continue
        n_query += 1
        cfg = fn.cfg
        checks = [c for c in fn.calls("InterrogateDatabase::check_latest")]
        cl = [cfg.locate(c) for c in checks]
        dom = cfg.dominators()
        bad = None
        for r in reads:
            rl = cfg.locate(r)
            if rl is None:
                continue
            ok = False
            for l in cl:
                if l is None:
                    continue
                if l[0] == rl[0]:
                    ok = ok or l[1] < rl[1]
                elif l[0] in dom.get(rl[0], ()):
                    ok = True
            if not ok:
                bad = r
                break
        ctx.ob("R13.1", "%s(%s)|check_latest-first" % (fn.name, ",".join(p["t"] for p in fn.params)), bad is None,
               fn.loc(bad) if bad is not None else fn.loc(),
               "reads %s %s" % (sorted({r["n"].split("::")[-1] for r in reads}),
                                 "only after check_latest()" if bad is None else "WITHOUT a dominating check_latest()"))
    ctx.floor("R13.1", "query members touching primary tables", n_query, 30)
    # lookup() is private and reached only from lookup_* (which call check_latest first)
    lk = db.fn("InterrogateDatabase::lookup")
    callers = [f for f in db.functions if any(True for _ in f.calls("InterrogateDatabase::lookup"))]
    for f in callers:
        ok = f.name.startswith("InterrogateDatabase::lookup_")
        ctx.ob("R13.1", "lookup|caller|%s" % f.name, ok, f.loc(), "lookup() called from %s" % f.name)
    # the freshness test itself
    cl = db.fn("InterrogateDatabase::check_latest")
    ok = False
    for n in cl.walk():
        if n.get("k") == "if":
            atom, pos = cond_atom(cl, n["c"])
            if atom is not None and atom.get("k") == "call" and callee_short(atom) == "empty" and field_of(atom.get("this")) == "InterrogateDatabase::_requests" and not pos:
                ok = any(c.get("f") == "InterrogateDatabase::load_latest" for c in walk(n["then"]))
    ctx.ob("R13.1", "check_latest|loads-when-requests-pending", ok, cl.loc(), "check_latest() calls load_latest() iff _requests is non-empty")
    # load_latest drains the requests
    ll = db.fn("InterrogateDatabase::load_latest")
    drained = any(c.get("k") == "call" and callee_short(c) in ("swap", "clear") and field_of(c.get("this") or (c.get("a") or [None])[0]) == "InterrogateDatabase::_requests"
                  or (c.get("k") == "call" and callee_short(c) == "swap" and any(field_of(a) == "InterrogateDatabase::_requests" for a in c.get("a", [])))
                  for c in ll.walk())
    ctx.ob("R13.1", "load_latest|drains-requests", drained, ll.loc(), "load_latest() empties _requests (so the next query does not reload)")

    cache_rules(ctx, "R13.2")
    mf = db.fn("InterrogateDatabase::merge_from")

    # ------------------------------------------------------------- R13.3
    other = mf.params[0]["d"]
    kinds = {"_function_map": "function", "_wrapper_map": "wrapper", "_manifest_map": "manifest",
             "_element_map": "element", "_make_seq_map": "make_seq", "_type_map": "type"}
    seen = {}
    for n in mf.walk():
        if n.get("k") not in ("for", "forrange"):
            continue
        cont = loop_container(mf, n)
        if cont is None or cont.get("k") != "mem":
            continue
        b = peel(cont.get("b"))
        if b is None or b.get("k") != "ref" or b.get("d") != other:
            continue
        m = cont["n"].split("::")[-1]
        seen.setdefault(m, []).append(n)
    for m, kd in kinds.items():
        loops = seen.get(m, [])
        added = renum = False
        for lp in loops:
            for c in walk(lp["body"]):
                if c.get("k") == "call" and c.get("f") == "InterrogateDatabase::add_" + kd:
                    added = True
                if c.get("k") == "call" and callee_short(c) == "remap_indices" and "this" in c:
                    obj = peel(c["this"])
                    if obj is not None and obj.get("k") == "call" and obj.get("f") == "InterrogateDatabase::update_" + kd:
                        renum = True
        ctx.ob("R13.3", "merge_from|%s|copied" % m, added, mf.loc(loops[0]) if loops else mf.loc(),
               "every record of other.%s is %sadded with add_%s" % (m, "" if added else "NOT ", kd))
        ctx.ob("R13.3", "merge_from|%s|renumbered" % m, renum, mf.loc(loops[0]) if loops else mf.loc(),
               "update_%s(i).remap_indices(remap) is %sapplied to each copy" % (kd, "" if renum else "NOT "))
    # shared types
    mw = [c for c in mf.walk() if c.get("k") == "call" and callee_short(c) == "merge_with"]
    ok = False
    if len(mw) == 1:
        arg = local_ref(mw[0]["a"][0])
        if arg is not None:
            rl = [c for c in mf.walk() if c.get("k") == "call" and callee_short(c) == "remap_indices" and "this" in c and (local_ref(c["this"]) or {}).get("d") == arg["d"]]
            if rl:
                a, b = mf.cfg.locate(rl[0]), mf.cfg.locate(mw[0])
                if a is not None and b is not None:
                    ok = (a[1] < b[1]) if a[0] == b[0] else (a[0] in mf.cfg.dominators().get(b[0], ()))
    ctx.ob("R13.3", "merge_from|shared-type|renumbered-before-merge_with", ok, mf.loc(mw[0]) if mw else mf.loc(),
           "the incoming definition of a shared type is renumbered before it is merged")
    # becomes global
    ok = False
    for n in mf.walk():
        if n.get("k") == "if":
            s = show(n["c"]).replace(" ", "")
            if "is_global()" in s and s.count("is_global()") == 2 and "!" in s:
                for c in walk(n["then"]):
                    if c.get("k") == "call" and callee_short(c) == "push_back" and field_of(c.get("this")) == "InterrogateDatabase::_global_types":
                        ok = True
    ctx.ob("R13.3", "merge_from|shared-type|global-union", ok, mf.loc(), "a shared type that is global on the incoming side only is appended to _global_types")
    # … and the test must read the old global-ness: merge_with() ORs the flags together, so a test
    # placed after it can never see "was not global before"
    tests = []
    for n in mf.walk():
        if n.get("k") == "if":
            sc = show(n["c"]).replace(" ", "")
            if sc.count("is_global()") == 2 and "!" in sc:
                tests.append(n)
    ok2 = False
    if tests and mw:
        calls = [c for c in walk(tests[0]["c"]) if c.get("k") == "call" and callee_short(c) == "is_global"]
        tl = mf.cfg.locate(calls[0]) if calls else None
        ml = mf.cfg.locate(mw[0])
        if tl is not None and ml is not None:
            ok2 = (tl[1] < ml[1]) if tl[0] == ml[0] else (tl[0] in mf.cfg.dominators().get(ml[0], ()) and ml[0] not in mf.cfg.dominators().get(tl[0], ()))
    ctx.ob("R13.3", "merge_from|shared-type|global-test-before-merge_with", ok2, mf.loc(tests[0]) if tests else mf.loc(),
           "the `was not global, becomes global` test is evaluated %s merge_with() merges the flags" % ("before" if ok2 else "AFTER (it can never be true)"))

    # ------------------------------------------------------------- R13.4
    rm = db.fn("InterrogateDatabase::request_module")
    F_FIRST, F_NEXT, M_NEXT = "InterrogateModuleDef::first_index", "InterrogateModuleDef::next_index", "InterrogateDatabase::_next_index"

    def is_f(n, name):
        return field_of(n) == name

    count_var = None
    for n in rm.walk():
        if n.get("k") == "decls":
            for d in n["d"]:
                i = strip_casts(d.get("init")) if d.get("init") else None
                if i is not None and i.get("k") == "bin" and i["op"] == "-" and is_f(i["x"], F_NEXT) and is_f(i["y"], F_FIRST):
                    count_var = d["d"]
    # locals that are plain copies of n count as n
    count_vars = {count_var}
    changed = count_var is not None
    while changed:
        changed = False
        for n in rm.walk():
            if n.get("k") == "decls":
                for d in n["d"]:
                    i = local_ref(strip_casts(d.get("init"))) if d.get("init") else None
                    if i is not None and i.get("d") in count_vars and d["d"] not in count_vars:
                        count_vars.add(d["d"])
                        changed = True
    ctx.ob("R13.4", "request_module|count", count_var is not None, rm.loc(), "n := def->next_index - def->first_index")
    st_first = st_adv = st_next = None
    for n in rm.walk():
        t = assigned_target(n)
        if t:
            if is_f(t[0], F_FIRST) and is_f(t[1], M_NEXT):
                st_first = n
            if is_f(t[0], F_NEXT) and is_f(t[1], M_NEXT):
                st_next = n
            if is_f(t[0], M_NEXT):
                r = strip_casts(t[1])
                if r is not None and r.get("k") == "bin" and r["op"] == "+" and (
                        (is_f(r["x"], M_NEXT) and (local_ref(r["y"]) or {}).get("d") in count_vars) or
                        (is_f(r["y"], M_NEXT) and (local_ref(r["x"]) or {}).get("d") in count_vars)):
                    st_adv = n
        if n.get("k") == "bin" and n.get("op") == "+=" and is_f(n["x"], M_NEXT) and (local_ref(n["y"]) or {}).get("d") in count_vars and count_var is not None:
            st_adv = n
    ctx.ob("R13.4", "request_module|first", st_first is not None, rm.loc(st_first) if st_first else rm.loc(), "def->first_index := _next_index")
    ctx.ob("R13.4", "request_module|advance", st_adv is not None, rm.loc(st_adv) if st_adv else rm.loc(), "_next_index advanced by exactly n")
    ctx.ob("R13.4", "request_module|next", st_next is not None, rm.loc(st_next) if st_next else rm.loc(), "def->next_index := _next_index (new value)")
    p1 = rm.cfg.locate(st_first) if st_first else None
    p2 = rm.cfg.locate(st_adv) if st_adv else None
    p3 = rm.cfg.locate(st_next) if st_next else None
    ordered = None not in (p1, p2, p3) and p1[0] == p2[0] == p3[0] and p1[1] < p2[1] < p3[1]
    ctx.ob("R13.4", "request_module|order", ordered, rm.loc(), "first_index <- _next_index; _next_index += n; next_index <- _next_index, in this order on one path")
    pb = [c for c in rm.walk() if c.get("k") == "call" and callee_short(c) == "push_back" and field_of(c.get("this")) == "InterrogateDatabase::_modules"]
    ok = len(pb) == 1 and p1 is not None and rm.cfg.locate(pb[0])[0] == p1[0]
    ctx.ob("R13.4", "request_module|modules-push-on-that-path-only", ok, rm.loc(), "_modules.push_back(def) exactly once, in the block that assigns the range")
    guard = False
    for bid, b in rm.cfg.blocks.items():
        if b.cond is not None and p1 is not None and len(b.succs) == 2:
            atom, ps = cond_atom(rm, rm.nodes[b.cond])
            if atom is not None and atom.get("k") == "bin":
                lx, ly = local_ref(atom["x"]), local_ref(atom["y"])
                pos_edge = None
                if lx is not None and lx.get("d") in count_vars and const_int(atom["y"]) == 0 and atom["op"] in (">", "!=", "<=", "=="):
                    pos_edge = 0 if (atom["op"] in (">", "!=")) == ps else 1
                if ly is not None and ly.get("d") in count_vars and const_int(atom["x"]) == 0 and atom["op"] in ("<", "!=", ">=", "=="):
                    pos_edge = 0 if (atom["op"] in ("<", "!=")) == ps else 1
                if pos_edge is not None and p1[0] not in rm.cfg.reachable(cut_edges=[(bid, pos_edge)]):
                    guard = True
    ctx.ob("R13.4", "request_module|only-when-nonempty", guard, rm.loc(), "the range is assigned only when n > 0")
    # read(): range check
    rd = db.fn("InterrogateDatabase::read")
    next_var = None
    anon = False
    for n in rd.walk():
        if n.get("k") == "decls":
            for d in n["d"]:
                i = strip_casts(d.get("init")) if d.get("init") else None
                if i is not None and i.get("k") == "call" and callee_short(i) == "remap_indices" and i.get("a") and is_f(i["a"][0], F_FIRST):
                    next_var = d["d"]
        t = assigned_target(n)
        if t and is_f(t[0], M_NEXT):
            r = strip_casts(t[1])
            if r is not None and r.get("k") == "call" and callee_short(r) == "remap_indices" and r.get("a") and is_f(r["a"][0], M_NEXT):
                anon = True
    cmp_ok = False
    for bid, b in rd.cfg.blocks.items():
        if b.cond is None:
            continue
        atom, ps = cond_atom(rd, rd.nodes[b.cond])
        if atom is not None and atom.get("k") == "bin" and atom["op"] in ("!=", "=="):
            l, r = local_ref(atom["x"]), local_ref(atom["y"])
            if (l is not None and l.get("d") == next_var and is_f(atom["y"], F_NEXT)) or (r is not None and r.get("d") == next_var and is_f(atom["x"], F_NEXT)):
                cmp_ok = next_var is not None
    ctx.ob("R13.4", "read|range-check", cmp_ok, rd.loc(), "a module with a preassigned range is renumbered from def->first_index and the result is compared with def->next_index")
    ctx.ob("R13.4", "read|anonymous-range", anon, rd.loc(), "a file without a preassigned range is appended at _next_index, which advances to the returned value")
    mapping_before_use(ctx)
    _local_map_keys_agree(ctx)
    _global_flag_survives_losing(ctx)
    _module_search_includes_the_first_index(ctx)

def mapping_before_use(ctx):
    """R13.5: merge_from translates every index of an incoming record with `remap`.  A record can refer to a shared type
    that comes later in the incoming file, so the other->this type mapping must be complete before the first record is
    translated: no add_mapping() may be reachable after a remap_indices(remap) call."""
    db = ctx.db
    ctx.rule("R13.5", "in merge_from no remap.add_mapping() call is reachable from a remap_indices(remap) call (the type mapping is complete before any record is translated); merge_with keeps the fully defined side, and among two fully defined sides the global one")
    fn = db.fn("InterrogateDatabase::merge_from")
    cfg = fn.cfg
    adds = [c for c in fn.walk() if c.get("k") == "call" and callee_short(c) == "add_mapping"]
    uses = [c for c in fn.walk() if c.get("k") == "call" and callee_short(c) == "remap_indices"]
    if not adds or not uses:
        ctx.broken("merge_from: add_mapping / remap_indices calls not found")
    bad = None
    for u in uses:
        lu = cfg.locate(u)
        if lu is None:
            continue
        seen = set()
        for s0 in cfg.blocks[lu[0]].succs:
            if s0 is not None:
                seen |= cfg.reachable(s0)
        for a in adds:
            la = cfg.locate(a)
            if la is not None and (la[0] in seen or (la[0] == lu[0] and la[1] > lu[1])):
                bad = (u, a)
    ctx.ob("R13.5", "merge_from|mapping-complete-before-first-translation", bad is None, fn.loc(adds[0]),
           "the mapping is complete before records are translated" if bad is None else
           "`%s` (line %d) can still run after `%s` (line %d) has translated a record" % (show(bad[1])[:40], fn.line_of(bad[1]), show(bad[0])[:40], fn.line_of(bad[0])))
    # merge_with: who wins
    mw = db.fn("InterrogateType::merge_with")
    ifs = [n for n in mw.walk() if n.get("k") == "if"]
    if not ifs:
        ctx.broken("merge_with: the winner test not found")
    top = ifs[0]
    other = mw.params[0]["n"]

    def ev(e, this_fd, other_fd, other_gl):
        e = peel(e)
        k = e.get("k")
        if k == "bin" and e.get("op") in ("&&", "||"):
            a, b = ev(e["x"], this_fd, other_fd, other_gl), ev(e["y"], this_fd, other_fd, other_gl)
            return (a and b) if e["op"] == "&&" else (a or b)
        if k == "un" and e.get("op") == "!":
            return not ev(e["e"], this_fd, other_fd, other_gl)
        if k == "call" and callee_short(e) == "is_fully_defined":
            t = strip_casts(peel(e.get("this")))
            return other_fd if (t is not None and t.get("k") == "ref" and t.get("n") == other) else this_fd
        if k == "call" and callee_short(e) == "is_global":
            t = strip_casts(peel(e.get("this")))
            if t is not None and t.get("k") == "ref" and t.get("n") == other:
                return other_gl
            raise ValueError("is_global() of this")
        if k == "bin" and e.get("op") in ("==", "!="):
            l, r = strip_casts(peel(e["x"])), e["y"]
            if l is not None and l.get("k") == "bin" and l.get("op") == "&" and const_int(r) == 0:
                names = [x["n"].split("::")[-1] for x in walk(l) if x.get("k") == "ref" and x.get("dk") == "enumc"]
                objs = [x for x in walk(l) if x.get("k") == "mem" and x.get("n", "").endswith("_flags")]
                if names == ["F_global"] and objs and (strip_casts(peel(objs[0].get("b"))) or {}).get("n") == other:
                    return (not other_gl) if e["op"] == "==" else other_gl
        raise ValueError("unrecognised sub-condition " + show(e)[:40])
    bad2 = []
    try:
        for tf in (False, True):
            for of in (False, True):
                for og in (False, True):
                    got = bool(ev(top["c"], tf, of, og))
                    want = tf and (not of or not og)
                    if got != want:
                        bad2.append("this %s, other %s%s: %s wins, documented: %s" % ("full" if tf else "partial", "full" if of else "partial", "+global" if og else "", "this" if got else "other", "this" if want else "other"))
    except ValueError as e:
        bad2.append(str(e))
    ctx.ob("R13.5", "merge_with|fully-defined-then-global-wins", not bad2, mw.loc(top), "; ".join(bad2[:3]) if bad2 else "the eight combinations agree with the documented rule")



def _local_map_keys_agree(ctx, rid="R13.6"):
    """R13.6: "types with equal TRUE NAME are identified".  merge_from decides identity through a local name -> index map
    of the types already loaded.  The accessor whose result keys the map when it is filled must be the accessor whose
    result is looked up - and it must be the true name (the scoped name drops the scope of template arguments:
    `util::Handle< Token >` vs `util::Handle< util::Token >`).  (Seed S6-C13.)"""
    db = ctx.db
    ctx.rule(rid, "in merge_from every key stored into or looked up in the local name->index map of loaded types is `<type>.get_true_name()`")
    f = db.fn("InterrogateDatabase::merge_from")
    maps = {}
    for x in f.walk():
        if x.get("k") == "decls":
            for d in x["d"]:
                if "map<" in (d.get("t") or "") + (d.get("ct") or "") and "string" in (d.get("t") or "") + (d.get("ct") or ""):
                    maps[d["d"]] = d["n"]
    n = 0
    for c in f.walk():
        if c.get("k") != "call" or "this" not in c and not c.get("opc"):
            continue
        cs = callee_short(c)
        recv = None
        key = None
        if cs in ("find", "count", "erase", "at") and "this" in c and c.get("a"):
            recv, key = c["this"], c["a"][0]
        elif cs == "operator[]" and c.get("a"):
            if "this" in c:
                recv, key = c["this"], c["a"][0]
            elif len(c["a"]) >= 2:
                recv, key = c["a"][0], c["a"][1]
        if recv is None:
            continue
        r = local_ref(recv)
        if r is None or r.get("d") not in maps:
            continue
        n += 1
        k = strip_casts(peel(key))
        while k is not None and k.get("k") in ("ctor", "temp", "bind") and k.get("a"):
            k = strip_casts(peel(k["a"][0]))
        acc = callee_short(k) if k is not None and k.get("k") == "call" else None
        ok = acc == "get_true_name"
        ctx.ob(rid, "merge_from|%s.%s|key-is-true-name#%d" % (maps[r["d"]], cs, n), ok, f.loc(c), "`%s` keys the map with %s" % (show(c)[:60], (acc + "()") if acc else show(key)[:30]))
    ctx.floor(rid, "accesses to the local name->index map in merge_from", n, 2)


def _global_flag_survives_losing(ctx):
    """R13.7: "a type is global if any loaded library says so" must not depend on which definition wins the merge.
    InterrogateType::merge_with() keeps `this` ("we win": OR in the other's F_global) or takes the other wholesale
    ("they win": `*this = other`); in the second case the bit this type HAD must be saved before the assignment and
    OR-ed back after it.  (Seed S9-C13: the saved bit was read from `other`; a global forward declaration loaded before
    a non-global definition lost its flag in that order only, while merge_from had already listed it as global.)"""
    db = ctx.db
    ctx.rule("R13.7", "in InterrogateType::merge_with, on the branch that assigns `*this = other`, `this->_flags & F_global` is saved in a local before the assignment and OR-ed into _flags after it; on the other branch other's F_global is OR-ed in")
    f = db.fn("InterrogateType::merge_with")
    assigns = [c for c in f.walk() if c.get("k") == "call" and callee_short(c) == "operator=" and
               any(z.get("k") == "this" for z in walk(c.get("this") or (c.get("a") or [{}])[0]))]
    if not assigns:
        ctx.broken("R13.7: `*this = other` not found in merge_with")
        return
    a = assigns[0]

    def reads_global_of(n, owner_is_this):
        n = strip_casts(peel(n)) if n is not None else None
        if n is None or n.get("k") != "bin" or n.get("op") != "&":
            return False
        sides = [strip_casts(peel(n["x"])), strip_casts(peel(n["y"]))]
        has_bit = any(z is not None and z.get("k") == "ref" and (z.get("n") or "").endswith("F_global") for z in sides)
        fl = [z for z in sides if z is not None and z.get("k") == "mem" and (z.get("n") or "").endswith("::_flags")]
        if not (has_bit and fl):
            return False
        base = strip_casts(peel(fl[0].get("b")))
        is_this = base is not None and base.get("k") == "this"
        return is_this == owner_is_this
    saved = None
    for y in f.walk():
        if y.get("k") == "decls":
            for dd in y["d"]:
                if dd.get("init") is not None and reads_global_of(dd["init"], True) and y.get("i", 0) < a.get("i", 0):
                    saved = dd
    restored = False
    if saved is not None:
        for y in f.walk():
            if y.get("k") == "bin" and y.get("op") == "|=" and (field_of(strip_casts(peel(y["x"]))) or "").endswith("::_flags") and \
               (local_ref(y["y"]) or {}).get("d") == saved["d"] and y.get("i", 0) > a.get("i", 0):
                restored = True
    ctx.ob("R13.7", "merge_with|they-win|own-global-bit-saved-and-restored", saved is not None and restored, f.loc(a),
           "`this->_flags & F_global` is saved before `*this = other` and OR-ed back afterwards" if saved is not None and restored else
           "the F_global bit this type had is lost when the other definition wins")
    we = [y for y in f.walk() if y.get("k") == "bin" and y.get("op") == "|=" and (field_of(strip_casts(peel(y["x"]))) or "").endswith("::_flags") and reads_global_of(y["y"], False)]
    ctx.ob("R13.7", "merge_with|we-win|other-global-bit-added", bool(we), f.loc(we[0]) if we else f.loc(), "`_flags |= other._flags & F_global` on the branch that keeps this definition")


def _module_search_includes_the_first_index(ctx):
    """R13.8: every module owns the index range [first_index, next_index).  binary_search_module(begin, end, i) finds the
    owner of i as the LAST module whose first_index is <= i; it keeps `first_index[begin] <= i` and may move `begin` up to
    `mid` exactly when `first_index[mid] <= i` - equality included: i == first_index[mid] is the first entity of that
    module.  (Seed S10-C13: `<` instead of `<=`; the first wrapper of every module but the first resolved to the
    preceding module and got a null function pointer.)"""
    from . import gates as G
    db = ctx.db
    ctx.rule("R13.8", "in binary_search_module the recursive call that continues with (mid, end) is taken exactly where `_modules[mid]->first_index <= key`, the one with (begin, mid) where it is `> key`")
    f = db.fn("InterrogateDatabase::binary_search_module")
    ps = f.params or []
    if len(ps) < 3:
        ctx.broken("R13.8: unexpected signature of binary_search_module")
        return
    p_begin, p_end, p_key = ps[0]["d"], ps[1]["d"], ps[2]["d"]
    first_locals = set()
    for y in f.walk():
        if y.get("k") == "decls":
            for dd in y["d"]:
                if dd.get("init") is not None and any(z.get("k") == "mem" and (z.get("n") or "").endswith("::first_index") for z in walk(dd["init"])):
                    first_locals.add(dd["d"])

    def is_first(n):
        n = strip_casts(peel(n)) if n is not None else None
        return n is not None and ((local_ref(n) or {}).get("d") in first_locals or (n.get("k") == "mem" and (n.get("n") or "").endswith("::first_index")))

    def rel(want):
        def holds(atom, truth):
            ca = G.cmp_atom(atom)
            if not ca:
                return False
            op, u, v = ca
            op = op if truth else G.NEG[op]
            if is_first(v) and (local_ref(u) or {}).get("d") == p_key:
                op, u, v = G.SWAP[op], v, u
            if not (is_first(u) and (local_ref(v) or {}).get("d") == p_key):
                return False
            return op == want
        return holds
    n = 0
    for c in f.walk():
        if not (c.get("k") == "call" and c.get("f") == f.name and len(c.get("a", [])) >= 3):
            continue
        a0, a1 = local_ref(c["a"][0]), local_ref(c["a"][1])
        if a1 is not None and a1.get("d") == p_end and a0 is not None and a0.get("d") != p_begin:
            side, want = "continues-right", "<="
        elif a0 is not None and a0.get("d") == p_begin:
            side, want = "continues-left", ">"
        else:
            continue
        n += 1
        e = G.edges_where(f, rel(want))
        wrong = G.edges_where(f, rel("<" if want == "<=" else ">="))
        ok = bool(e) and G.gated(f, c, e) and not (wrong and G.gated(f, c, wrong) and not e)
        ctx.ob("R13.8", "binary_search_module|%s|first_index %s key" % (side, want), ok, f.loc(c),
               "the search %s exactly where first_index[mid] %s key" % (side.replace("-", " "), want) if ok else
               "the search %s under a different relation than first_index[mid] %s key" % (side.replace("-", " "), want))
    ctx.floor("R13.8", "recursive calls of binary_search_module", n, 2)
