"""Helpers shared by rule modules."""
from ..facts import peel, strip_casts, show, walk, children, cond_atom


def is_this_field(n, rec=None):
    """n is `this->field` (or implicit) — returns the field's qualified name."""
    n = peel(n)
    if n is None or n.get("k") != "mem":
        return None
    b = peel(n.get("b"))
    if b is not None and b.get("k") == "this":
        if rec is None or n["n"].startswith(rec + "::") or True:
            return n["n"]
    return None


def field_of(n):
    """Qualified field name if n is any member access (through any base)."""
    n = peel(n)
    if n is not None and n.get("k") == "mem" and not n.get("method"):
        return n["n"]
    return None


def base_of(n):
    n = peel(n)
    if n is not None and n.get("k") == "mem":
        return peel(n.get("b"))
    return None


def deref(n):
    """Strip unary * / iterator operator* from n."""
    n = peel(n)
    while n is not None:
        if n.get("k") == "un" and n.get("op") == "*":
            n = peel(n["e"])
            continue
        if n.get("k") == "call" and n.get("opc") and n.get("f", "").endswith("operator*") and len(n["a"]) == 1:
            n = peel(n["a"][0])
            continue
        break
    return n


def callee_short(n):
    return n.get("f", "").split("::")[-1]


def is_call(n, *names):
    n = peel(n)
    return n is not None and n.get("k") == "call" and n.get("f") in names


def is_method_call(n, short):
    """x.short(...) for any class."""
    n = peel(n)
    return n is not None and n.get("k") == "call" and "this" in n and callee_short(n) == short


def stream_chain(n, op):
    """Decompose ((s op a) op b) op c  ->  (s, [a, b, c]) for op in '<<' '>>'.
    Returns None if n is not such a chain."""
    n = peel(n)
    items = []
    while n is not None and n.get("k") == "call" and n.get("opc") and callee_short(n) == "operator" + op and len(n.get("a", [])) == 2:
        items.append(n["a"][1])
        n = peel(n["a"][0])
    if not items:
        return None
    items.reverse()
    return n, items


def type_is_stream(t, kind):
    t = t or ""
    return ("ostream" in t or "ofstream" in t or "ostringstream" in t) if kind == "o" else ("istream" in t or "ifstream" in t)


def assigned_target(n):
    """For `lhs = rhs` (builtin or operator=) return (lhs, rhs) else None."""
    n = peel(n)
    if n is None:
        return None
    if n.get("k") == "bin" and n.get("op") == "=":
        return peel(n["x"]), peel(n["y"])
    if n.get("k") == "call" and n.get("opc") and callee_short(n) == "operator=" and len(n.get("a", [])) == 2:
        return peel(n["a"][0]), peel(n["a"][1])
    return None


def const_int(n):
    n = strip_casts(n)
    if n is None:
        return None
    if n.get("k") in ("int", "chr", "bool"):
        v = n.get("v")
        return int(v) if not isinstance(v, str) else int(v)
    if n.get("k") == "ref" and n.get("dk") == "enumc":
        return n.get("v")
    if n.get("k") == "un" and n.get("op") == "-":
        v = const_int(n["e"])
        return -v if v is not None else None
    return None


def refs_local(n, decl_id):
    for x in walk(n):
        if x.get("k") == "ref" and x.get("d") == decl_id:
            return True
    return False


def mentions_field(n, field):
    for x in walk(n):
        if x.get("k") == "mem" and x.get("n") == field:
            return True
    return False
