"""Helpers shared by rule modules."""
from ..facts import peel, strip_casts, show, walk, children, cond_atom


def is_this_field(n, rec=None):
    """n is `this->field` (or implicit) — returns the field's qualified name."""
    n = peel(n)
    if n is None or n.get("k") != "mem":
        return None
    b = peel(n.get("b"))
    if b is not None and b.get("k") == "this":
        if rec is None or n["n"].startswith(rec + "::") or True:
            return n["n"]
    return None


def field_of(n):
    """Qualified field name if n is any member access (through any base)."""
    n = peel(n)
    if n is not None and n.get("k") == "mem" and not n.get("method"):
        return n["n"]
    return None


def base_of(n):
    n = peel(n)
    if n is not None and n.get("k") == "mem":
        return peel(n.get("b"))
    return None


def deref(n):
    """Strip unary * / iterator operator* from n."""
    n = peel(n)
    while n is not None:
        if n.get("k") == "un" and n.get("op") == "*":
            n = peel(n["e"])
            continue
        if n.get("k") == "call" and n.get("opc") and n.get("f", "").endswith("operator*") and len(n["a"]) == 1:
            n = peel(n["a"][0])
            continue
        break
    return n


def callee_short(n):
    return n.get("f", "").split("::")[-1]


def is_call(n, *names):
    n = peel(n)
    return n is not None and n.get("k") == "call" and n.get("f") in names


def is_method_call(n, short):
    """x.short(...) for any class."""
    n = peel(n)
    return n is not None and n.get("k") == "call" and "this" in n and callee_short(n) == short


def stream_chain(n, op):
    """Decompose ((s op a) op b) op c  ->  (s, [a, b, c]) for op in '<<' '>>'.
    Returns None if n is not such a chain."""
    n = peel(n)
    items = []
    while n is not None and n.get("k") == "call" and n.get("opc") and callee_short(n) == "operator" + op and len(n.get("a", [])) == 2:
        items.append(n["a"][1])
        n = peel(n["a"][0])
    if not items:
        return None
    items.reverse()
    return n, items


def type_is_stream(t, kind):
    t = t or ""
    return ("ostream" in t or "ofstream" in t or "ostringstream" in t) if kind == "o" else ("istream" in t or "ifstream" in t)


def assigned_target(n):
    """For `lhs = rhs` (builtin or operator=) return (lhs, rhs) else None."""
    n = peel(n)
    if n is None:
        return None
    if n.get("k") == "bin" and n.get("op") == "=":
        return peel(n["x"]), peel(n["y"])
    if n.get("k") == "call" and n.get("opc") and callee_short(n) == "operator=" and len(n.get("a", [])) == 2:
        return peel(n["a"][0]), peel(n["a"][1])
    return None


def const_int(n):
    n = strip_casts(n)
    if n is None:
        return None
    if n.get("k") in ("int", "chr", "bool"):
        v = n.get("v")
        return int(v) if not isinstance(v, str) else int(v)
    if n.get("k") == "ref" and n.get("dk") == "enumc":
        return n.get("v")
    if n.get("k") == "un" and n.get("op") in ("-", "+", "~"):
        v = const_int(n["e"])
        if v is None:
            return None
        return {"-": -v, "+": v, "~": ~v}[n["op"]]
    if n.get("k") == "bin" and n.get("op") in ("+", "-", "*", "|", "&", "<<"):
        a, b = const_int(n["x"]), const_int(n["y"])
        if a is None or b is None:
            return None
        return {"+": a + b, "-": a - b, "*": a * b, "|": a | b, "&": a & b, "<<": a << b if 0 <= b < 64 else None}[n["op"]]
    return None


def refs_local(n, decl_id):
    for x in walk(n):
        if x.get("k") == "ref" and x.get("d") == decl_id:
            return True
    return False


def mentions_field(n, field):
    for x in walk(n):
        if x.get("k") == "mem" and x.get("n") == field:
            return True
    return False


def enclosing_loops(fn, node):
    """Enclosing for/while/forrange statements of node, innermost first."""
    for a in fn.ancestors(node):
        if a.get("k") in ("for", "while", "do", "forrange"):
            yield a


def loop_container(fn, loop, var_decl=None):
    """The container expression a loop ranges over:
       for (it = C.begin(); it != C.end(); ++it)   -> C
       for (T x : C)                                -> C
    If var_decl is given, the loop must be the one binding that variable."""
    if loop.get("k") == "forrange":
        if var_decl is not None and loop.get("vd") != var_decl:
            return None
        return peel(loop.get("range"))
    if loop.get("k") == "for":
        for part in (loop.get("init"), loop.get("c")):
            if part is None:
                continue
            for x in walk(part):
                if x.get("k") == "call" and "this" in x and callee_short(x) in ("begin", "end", "cbegin", "cend", "rbegin", "rend"):
                    if var_decl is not None:
                        # the loop's init/cond must mention the variable
                        if not any(refs_local(p, var_decl) for p in (loop.get("init"), loop.get("c")) if p):
                            continue
                    return peel(x["this"])
    return None


def iter_container(fn, node, it_ref):
    """Container that the iterator/loop variable referenced by it_ref (a 'ref'
    node to a local) ranges over, judged from the enclosing loops of node."""
    d = it_ref.get("d")
    for lp in enclosing_loops(fn, node):
        if lp.get("k") == "forrange" and lp.get("vd") == d:
            return peel(lp.get("range")), lp
        if lp.get("k") == "for":
            c = loop_container(fn, lp, d)
            if c is not None:
                return c, lp
    return None, None


def local_ref(n):
    n = peel(n)
    if n is not None and n.get("k") == "ref" and n.get("dk") in ("local", "param"):
        return n
    return None


def resolve_typedef(db, t, depth=0):
    """Expand repo typedefs in a type spelling (one level of alias at a time)."""
    t = t.strip()
    if depth > 6:
        return t
    base = t.replace("const ", "").replace("&", "").strip()
    td = db.typedefs.get(base)
    if td is not None:
        return resolve_typedef(db, td["t"], depth + 1)
    return t
