"""C15 — the front-end is total: any input ends in a diagnostic, never a crash.

Decided (the ways the anchored code can die that are visible in its shape):
  R15.1 switches whose default reaches abort() are exhaustive over the values
        that can be constructed; no other abort/exit/terminate is reachable
        from the parser or the builder except the frozen, reasoned ones.
  R15.2 std::string positions that can exceed the size (literal k, size()-k,
        size()-size()) are dominated by a size test.
  R15.3 integer divisions whose divisor is not a non-zero literal are guarded.
  R15.4 subscripts of the form X[X.size() - k] are dominated by a size test.
  R15.6 a reported parse error forces a non-zero exit before any output file
        is opened.
  R15.7 self-reference suppression of macro expansion.
Not decided: general memory safety and termination of the hand-written
scanners and of bison error recovery over all byte strings.
"""
import re

from ..facts import peel, strip_casts, show, walk, cond_atom
from .common import (callee_short, field_of, base_of, assigned_target, const_int, local_ref, enclosing_loops)
from .C04 import switch_arms
from . import gates as G
from . import strpos
from . import C19
from .. import grammar as GR

LEVEL = "other"
EXPLANATION = ("A family of necessary conditions for totality of the front-end: exhaustiveness of abort-guarded switches, who-may-call of "
               "abort/exit, size guards of string positions and size-relative subscripts, division guards, the exit-status protocol of "
               "parse errors and the self-reference suppression of macro expansion.  Not a proof of totality.")
TRUSTED = ["clang 14 AST/CFG and call graph", "ivf/grammar.py", "-fno-exceptions: a throwing std::string member is abort()"]
ASSUMPTIONS = ["positions that are loop indices or results of find() are enumerated, not judged",
               "NDEBUG build: assert() is not a guard"]

# abort()/exit() sites outside main() that may stay, with the reason
ALLOWED_ABORT = {
    "CPPPreprocessor::error": "behind _error_abort, which is only ever assigned false (checked)",
    "InterfaceMaker::hash_function_signature": "reached only for a remap whose signature equals that of the remap in the same primary hash slot; make_function_remap(), the only caller, filters exactly that case out before it calls (checked below: F-C15s showed that the case IS reachable from input - `int f(int, int = 0); int f(int);`)",
}
# string-position sites whose guard is an invariant the rule cannot see, keyed by (function, rendered call)
STRPOS_EXCEPTIONS = {
    ("CPPExpression::output", "name.substr(12,std::basic_string::npos)"):
        "the operator of a user-defined literal is always named `operator \"\" x` (12-character prefix written by the grammar action that creates it)",
    ("InterfaceMakerPythonObj::write_function_instance", "extra_param_check.substr(3,std::basic_string::npos)"):
        "extra_param_check is empty or starts with the 3-character separator \"|| \" it is built with (guarded by !empty())",
    ("InterfaceMakerPythonSimple::write_function_instance", "extra_param_check.substr(3,std::basic_string::npos)"):
        "extra_param_check is empty or starts with the 3-character separator \"|| \" it is built with (guarded by !empty())",
    ("InterfaceMakerPythonNative::write_function_instance", "extra_param_check_str.substr(4,std::basic_string::npos)"):
        "extra_param_check_str is empty or starts with the 4-character separator \" || \" it is built with (guarded by !empty())",
}


def _norm(s):
    return re.sub(r"\s+", "", s)


def run(ctx):
    db = ctx.db
    thorough = ctx.tier == "thorough"
    ctx.rule("R15.1", "every switch whose default reaches abort() has a case for each value that can be constructed; abort/exit/terminate outside main() only at the frozen sites")
    ctx.rule("R15.2", "string positions of the shapes literal k / size()-k / size()-size() are dominated by a test implying the size suffices")
    ctx.rule("R15.3", "integer / and % with a divisor that is not a non-zero literal are guarded against zero")
    ctx.rule("R15.4", "X[X.size() - k] is dominated by a test implying X.size() >= k")
    ctx.rule("R15.6", "parse_file returns get_error_count() == 0; every error() increments the count; a failed parse exits non-zero and no output is opened before parsing completed")
    ctx.rule("R15.8", "every scanner loop that re-reads its look-ahead character inside the body can only go round while a test implying `c != EOF` holds (c != EOF, c == 'x', isX(c), c >= 0): at end of input it exits")
    ctx.rule("R15.9", "a cursor p into a string X is never used as a position (X[p], X.substr(p), X.compare(p,..), handed back through a reference parameter) after an increment that was not preceded by a test implying p < X.size(), unless such a test lies in between")
    ctx.rule("R15.10", "CPPPreprocessor::_infile is null once the last input file has been popped (get() tests for it); every other dereference of _infile is behind a test that it is not null")
    ctx.rule("R15.11", "every loop of the preprocessor that consumes tokens can only go round while a test implying `not at end of input` holds (_state != S_eof, !token.is_eof(), token._token == <a real token>)")
    ctx.rule("R15.12", "the parser entry points (parse_cpp, parse_const_expr, parse_type) install current_lexer before yyparse and restore the previous one last: nothing that reports through current_lexer (yyerror/yywarning, which dereference it) is reachable after the restoring assignment")
    ctx.rule("R15.13", "grammar statics that name the class / enum under construction are stacked: every `current_X = new ...` in the parser's actions is preceded by a push of the previous value and the construct's end pops it back; none is reset to nullptr (a nested definition would orphan the enclosing one)")
    ctx.rule("R15.14", "a CPPStructType predicate that recurses into the types of the class's members (the containment graph, which invalid input can make cyclic: `class P { P m; };`) carries a recursion guard")
    ctx.rule("R15.15", "the tools are built without a single try/catch: no call of a standard conversion that reports bad or out-of-range input by throwing (std::stoi/stol/stoll/stoul/stoull/stof/stod/stold, std::string::at, std::bitset(string)) in the parser, the generators or the database")
    ctx.rule("R15.7", "macro expansion excludes the macro being expanded: nested_ignores.insert(manifest) before the recursive expansion; the pushed expansion suppresses its own macro")

    # ------------------------------------------------------------ R15.1
    g = GR.Grammar(db.meta["grammar"])
    from . import C07
    tv = C07.token_values(db)
    tv_rev = {v: k for k, v in tv.items()}
    n_sw = 0
    for f in db.functions:
        if "bison" in f.file or not ("/cppparser/" in f.file or "/interrogate/" in f.file):
            continue
        for sw in [n for n in f.walk() if n.get("k") == "switch"]:
            arms = switch_arms(sw)
            aborting = None
            labels = set()
            for labs, stmts in arms:
                labels.update(v for v in labs if v != "default")
                if "default" in labs and any(c.get("k") == "call" and c.get("f") in ("abort", "std::abort") for st in stmts for c in walk(st)):
                    aborting = stmts
            if aborting is None:
                continue
            n_sw += 1
            ct = (sw.get("ct") or "").replace("const ", "").strip()
            scrut = show(sw["c"])
            inst = "%s|switch(%s)" % (f.name, _norm(scrut))
            en = db.enums.get(ct)
            if en is not None:
                missing = [c["n"] for c in en["consts"] if c["v"] not in labels]
                ctx.ob("R15.1", inst + "|exhaustive", not missing, f.loc(sw),
                       "enumerators of %s without a case: %s (the default branch aborts)" % (ct, missing) if missing else "all %d enumerators of %s have a case" % (len(en["consts"]), ct))
            elif scrut.endswith("_operator"):
                alpha = C07.operator_alphabet(ctx, db, g, tv, tv_rev)
                # unary/binary/ternary switches of output() share one alphabet; judged as a union there (R07.4)
                missing = [C07.op_name(v, tv_rev) for v in alpha if v not in labels]
                if f.name.endswith("::output"):
                    continue
                ctx.ob("R15.1", inst + "|exhaustive", not missing, f.loc(sw),
                       "constructible operators without a case: %s" % missing if missing else "all %d constructible operators have a case" % len(alpha))
            elif scrut.endswith("_trait"):
                traits = set()
                for nt, alts in g.rules.items():
                    for a in alts:
                        for m in re.finditer(r"type_trait\(\s*([A-Z_0-9]+)\s*,", a.action or ""):
                            if m.group(1) in tv:
                                traits.add(tv[m.group(1)])
                yy = db.fn("cppyyparse")
                clang_traits = {const_int(c["a"][0]) for c in yy.walk() if c.get("k") == "call" and c.get("f") == "CPPExpression::type_trait" and c.get("a")}
                clang_traits.discard(None)
                if clang_traits != traits:
                    ctx.broken("grammar reader and clang disagree on type_trait constants")
                missing = [tv_rev.get(v, v) for v in traits if v not in labels]
                ctx.ob("R15.1", inst + "|exhaustive", not missing and bool(traits), f.loc(sw),
                       "type traits without a case: %s" % missing if missing else "all %d type traits the grammar builds have a case" % len(traits))
            else:
                ctx.ob("R15.1", inst + "|exhaustive", False, f.loc(sw), "abort-guarded switch on %s of type %s: the rule cannot enumerate its values" % (scrut, ct))
    ctx.floor("R15.1", "abort-guarded switches", n_sw, 6)
    # who may call abort/exit
    n_ab = 0
    for f in db.functions:
        if f.name == "main" or "bison" in f.file:
            continue
        if not ("/cppparser/" in f.file or "/interrogate/" in f.file or "/interrogatedb/" in f.file):
            continue
        for c in f.walk():
            if c.get("k") == "call" and c.get("f") in ("abort", "std::abort", "exit", "std::exit", "_exit", "std::terminate", "__builtin_trap", "quick_exit"):
                in_switch_default = False
                for a in f.ancestors(c):
                    if a.get("k") == "switch":
                        in_switch_default = True
                if in_switch_default:
                    continue   # judged above
                n_ab += 1
                ok = f.name in ALLOWED_ABORT
                ctx.ob("R15.1", "%s|%s|allowed-site" % (f.name, c["f"]), ok, f.loc(c),
                       "%s() in %s: %s" % (c["f"], f.name, ALLOWED_ABORT.get(f.name, "NOT in the frozen list of reasoned sites")))
    # premise of the hash_function_signature exemption: its only caller has excluded the same-signature case
    hf = db.fn("InterfaceMaker::hash_function_signature")
    callers = [(f, c) for f in db.functions if "/interrogate/" in f.file for c in f.walk() if c.get("k") == "call" and c.get("f") == hf.name]
    for f, c in callers:
        def excluded(atom, truth):
            cm = G.cmp_atom(atom)
            if not cm:
                return False
            op, u, v = cm
            if not truth:
                op = G.NEG[op]
            sides = [strip_casts(peel(z)) if z is not None else None for z in (u, v)]
            if all(z is not None and z.get("k") == "mem" and (z.get("n") or "").endswith("FunctionRemap::_function_signature") for z in sides):
                return op == "!="
            if any(z is not None and z.get("k") == "nullp" for z in sides):
                return op == "=="          # the slot holds no remap (hash conflict already resolved): not the aborting branch either
            if any(z is not None and z.get("k") == "call" and callee_short(z) == "end" for z in sides):
                return op == "=="          # nothing in the slot
            return False
        ok = G.gated(f, c, G.edges_where(f, excluded))
        ctx.ob("R15.1", "%s|hash_function_signature|same-signature-excluded-before-call" % f.name, ok, f.loc(c),
               "hash_function_signature() is %scalled only after a remap with the same signature in the slot was ruled out" % ("" if ok else "NOT "))
    # _error_abort never becomes true
    writes = []
    for f in db.functions:
        for n in f.walk():
            t = assigned_target(n)
            if t and field_of(t[0]) == "CPPPreprocessor::_error_abort":
                writes.append((f, n, const_int(t[1])))
    ctx.ob("R15.1", "CPPPreprocessor::_error_abort|never-true", bool(writes) and all(v == 0 for _, _, v in writes), writes[0][0].loc(writes[0][1]) if writes else "src/cppparser/cppPreprocessor.cxx",
           "_error_abort is assigned %s" % [v for _, _, v in writes])

    # ------------------------------------------------------------ R15.2 / R15.4
    strpos._DB[0] = db
    n_judged = n_not = 0
    for f in db.functions:
        if "bison" in f.file:
            continue
        anchored = "/cppparser/" in f.file or "/interrogate/" in f.file
        if not anchored and not thorough:
            continue
        if "/interrogatedb/" in f.file and "py_" not in f.file and not thorough:
            continue
        for call, meth, cls in strpos.sites(f):
            if cls is None:
                n_not += 1
                continue
            if cls[0] == "lit" and (cls[1] == 0 or meth == "resize"):
                continue
            n_judged += 1
            key = (f.name, _norm(show(call)))
            if key in STRPOS_EXCEPTIONS:
                ctx.ob("R15.2", "%s|%s|exception" % key, True, f.loc(call), "reasoned exception: " + STRPOS_EXCEPTIONS[key])
                continue
            ok, desc, need = strpos.judge(f, call, cls)
            ctx.ob("R15.2", "%s|%s" % key, ok, f.loc(call), desc)
        # R15.4
        from .C20 import _subscripts
        for node, cont, idx in _subscripts(f):
            ix = strip_casts(idx)
            strpos._prepare(f)
            cls = strpos.classify_position(ix) if ix is not None else None
            if cls is None or cls[0] != "size-minus":
                continue
            if cls[1] != strpos.subject(cont):
                continue
            ok, desc, need = strpos.judge_need(f, node, strpos.subject(cont), cls[2])
            ctx.ob("R15.4", "%s|%s" % (f.name, _norm(show(node))), ok, f.loc(node), desc)
    ctx.floor("R15.2", "judged string-position sites", n_judged, 15)
    ctx.info("R15.2: %d position arguments that are loop indices / find() results were enumerated, not judged" % n_not)

    scanner_loops(ctx)
    throwing_conversions(ctx)
    nullable_initializer(ctx)
    expr_tokens_carry_expressions(ctx)
    looked_up_types_may_lack_cpptype(ctx)
    nullable_array_bounds(ctx)
    scopes_do_not_contain_themselves(ctx)
    namespaces_do_not_contain_themselves(ctx)
    scope_struct_type_is_nullable(ctx)
    typedefs_peeled_before_taking_apart(ctx)
    error_branches_of_actions_leave_a_value(ctx)
    class_hierarchy_is_acyclic(ctx)
    lookup_results_are_nullable(ctx)
    parallel_subscripts_are_bounded(ctx)
    shared_manifests_are_not_freed(ctx)
    using_walks_carry_a_visited_set(ctx)
    variable_evaluation_is_guarded(ctx)
    macro_table_holds_no_null(ctx)
    predecrement_subscripts_have_a_floor(ctx)
    null_noticed_is_null_handled(ctx)
    instance_substitution_registers_first(ctx)
    containment_recursion(ctx)
    construction_stacks(ctx)
    lexer_restore_order(ctx)
    token_loops(ctx)
    infile_derefs(ctx)
    string_cursors(ctx, thorough)

    # ------------------------------------------------------------ R15.3
    n_div = 0
    for f in db.functions:
        if "bison" in f.file or not ("/cppparser/" in f.file or "/interrogate/" in f.file):
            continue
        for n in f.walk():
            if n.get("k") == "bin" and n.get("op") in ("/", "%") and (n.get("t") or "") in ("int", "long", "long long", "unsigned int", "unsigned long", "size_t"):
                d = strip_casts(n["y"])
                if const_int(d) not in (None, 0) or (d is not None and d.get("k") == "sizeof"):
                    continue
                n_div += 1
                ds = show(d)

                def nonzero(atom, truth, ds=ds):
                    c = G.cmp_atom(atom)
                    if c:
                        op, a, b = c
                        for x, y in ((a, b), (b, a)):
                            if x is not None and show(x) == ds and const_int(y) == 0:
                                o = op if truth else G.NEG[op]
                                return o == "!="
                        return False
                    return show(strip_casts(atom)) == ds and truth
                ok = G.gated(f, n, G.edges_where(f, nonzero))
                ctx.ob("R15.3", "%s|%s" % (f.name, _norm(show(n))), ok, f.loc(n), "integer `%s` is %sguarded against a zero divisor" % (show(n), "" if ok else "NOT "))
                if (n.get("t") or "") in ("int", "long", "long long"):
                    def not_min_by_minus_one(atom, truth, ds=ds):
                        c = G.cmp_atom(atom)
                        if not c:
                            return False
                        op, a, b = c
                        o = op if truth else G.NEG[op]
                        for x, y in ((a, b), (b, a)):
                            if x is not None and show(x) == ds and const_int(y) == -1 and o == "!=":
                                return True
                            if const_int(y) in (-2147483648, -9223372036854775808) and o == "!=":
                                return True
                        return False
                    ok2 = G.gated(f, n, G.edges_where(f, not_min_by_minus_one))
                    ctx.ob("R15.3", "%s|%s|min-by-minus-one" % (f.name, _norm(show(n))), ok2, f.loc(n),
                           "signed `%s` is %sguarded against INT_MIN %s -1, which raises SIGFPE on x86" % (show(n), "" if ok2 else "NOT ", n["op"]))
    ctx.floor("R15.3", "integer divisions with a computed divisor", n_div, 2)

    # ------------------------------------------------------------ R15.6
    pf = db.fn("CPPParser::parse_file")
    pc = [c for c in pf.calls("CPPParser::parse_cpp")] or [c for c in pf.walk() if c.get("k") == "call" and callee_short(c) == "parse_cpp"]
    if not pc:
        ctx.broken("parse_file: call of parse_cpp not found")
    cfg = pf.cfg
    after = cfg.reachable(cfg.locate(pc[0])[0])
    rets = [r for r in pf.walk() if r.get("k") == "ret" and cfg.locate(r) and cfg.locate(r)[0] in after]
    ok = bool(rets)
    for r in rets:
        e = peel(r.get("e"))
        c = G.cmp_atom(e)
        ok = ok and c is not None and c[0] == "==" and c[1] is not None and c[1].get("k") == "call" and callee_short(c[1]) == "get_error_count" and const_int(c[2]) == 0
    ctx.ob("R15.6", "parse_file|returns-no-errors", ok, pf.loc(rets[0]) if rets else pf.loc(), "after parse_cpp() the result is get_error_count() == 0")
    gec = db.fn("CPPPreprocessor::get_error_count")
    ok = any(r.get("k") == "ret" and field_of(r.get("e")) == "CPPPreprocessor::_error_count" for r in gec.walk())
    ctx.ob("R15.6", "get_error_count|reads-_error_count", ok, gec.loc(), "get_error_count() returns _error_count")
    n_err = 0
    for f in db.fns("CPPPreprocessor::error"):
        n_err += 1
        incs = [n for n in f.walk() if n.get("k") == "un" and "++" in n.get("op", "") and field_of(n["e"]) == "CPPPreprocessor::_error_count"]
        deleg = [c for c in f.calls("CPPPreprocessor::error")]
        if deleg and not incs:
            dl = f.cfg.locate(deleg[0])
            ok = f.cfg.exit not in f.cfg.reachable(cut_blocks=[dl[0]])
            ctx.ob("R15.6", "error(%s)|delegates" % ",".join(p["t"] for p in f.params), ok, f.loc(), "every path calls error(message, loc)")
            continue
        nested = G.edges_where(f, lambda atom, truth: truth and (field_of(G.cmp_atom(atom)[1]) if G.cmp_atom(atom) else "") == "CPPPreprocessor::_state"
                               and G.cmp_atom(atom)[0] == "==" and "nested" in (G.cmp_atom(atom)[2] or {}).get("n", ""))
        inc_blocks = [f.cfg.locate(i)[0] for i in incs]
        reach = f.cfg.reachable(cut_edges=nested, cut_blocks=inc_blocks)
        # noreturn abort path is fine; the exit must not be reachable without counting
        ok = bool(incs) and f.cfg.exit not in reach
        ctx.ob("R15.6", "error(%s)|counts" % ",".join(p["t"] for p in f.params), ok, f.loc(),
               "every path outside the nested parser state increments _error_count")
    ctx.floor("R15.6", "error() overloads", n_err, 2)
    for fname in ("interrogate.cxx", "parse_file.cxx"):
        fn = db.fn("main", file_contains="/interrogate/" + fname)
        cfg = fn.cfg
        sv, _ = C19.status_var(fn)
        calls = [c for c in fn.walk() if c.get("k") == "call" and c.get("f") in ("CPPParser::parse_file", "CPPPreprocessor::preprocess_file")]
        if not calls:
            ctx.broken("%s main: no parse_file call" % fname)
        for c in calls:
            def failed(atom, truth, c=c):
                return atom is c and not truth
            fe = G.edges_where(fn, failed)
            ok = bool(fe)
            bad = None
            for (b, idx) in fe:
                s = cfg.blocks[b].succs[idx]
                o, bad = C19.failure_forces_nonzero(fn, s, sv)
                ok = ok and o
            ctx.ob("R15.6", "%s::main|%s-failure-exits-nonzero" % (fname, callee_short(c)), ok, fn.loc(c),
                   "a false result of %s() reaches only non-zero exits" % callee_short(c) if ok else "a false result of %s() can reach a zero exit (or is not tested)" % callee_short(c))
        if fname == "interrogate.cxx":
            pcall = [c for c in calls if c["f"] == "CPPParser::parse_file"][0]
            lp = next(enclosing_loops(fn, pcall), None)
            if lp is None:
                ctx.broken("interrogate main: parse loop not found")
            # header block = the block whose terminator is this for statement
            heads = [bid for bid, b in cfg.blocks.items() if b.term == lp["i"]]
            if not heads:
                ctx.broken("interrogate main: parse loop header not found")
            exit_edges = [(h, 1) for h in heads]
            opens = [c for c in fn.walk() if c.get("k") == "call" and callee_short(c) == "open_write"]
            ctx.floor("R15.6", "open_write calls in interrogate main", len(opens), 3)
            for o in opens:
                ok = G.gated(fn, o, exit_edges)
                ctx.ob("R15.6", "interrogate.cxx::main|%s|after-parse-loop" % _norm(show(o)), ok, fn.loc(o),
                       "%s is reachable only after the parse loop has completed (so a failed parse opens no output)" % show(o) if ok else
                       "%s can be reached before parsing completed" % show(o))

    # ------------------------------------------------------------ R15.7
    em = db.fn("CPPPreprocessor::expand_manifests")
    cfg = em.cfg
    inserts = [c for c in em.walk() if c.get("k") == "call" and callee_short(c) == "insert" and "this" in c and local_ref(c["this"]) is not None]
    recs = [c for c in em.walk() if c.get("k") == "call" and (c.get("f") == "CPPPreprocessor::expand_manifests" or c.get("f") == "CPPManifest::expand")]
    ctx.floor("R15.7", "recursive expansion calls in expand_manifests", len(recs), 2)
    for c in recs:
        # the ignore-set passed must be a local into which the manifest was inserted before
        arg = local_ref(c["a"][-1]) if c.get("a") else None
        ok = False
        for ins in inserts:
            if arg is not None and local_ref(ins["this"])["d"] == arg["d"]:
                a, b = cfg.locate(ins), cfg.locate(c)
                ok = ok or ((a[1] < b[1]) if a[0] == b[0] else a[0] in cfg.dominators().get(b[0], ()))
        ctx.ob("R15.7", "expand_manifests|%s|after-insert" % callee_short(c), ok, em.loc(c),
               "%s(…, %s) runs %s %s.insert(manifest)" % (callee_short(c), arg["n"] if arg else "?", "after" if ok else "WITHOUT a preceding", arg["n"] if arg else "the ignore set"))
    # ... and that local must START as a copy of the set this call was given: the macros already being expanded further out
    # stay excluded (A -> B -> A must stop at the second A)
    ign_param = [p for p in em.params if "Ignores" in p["t"]]
    for c in recs:
        arg = local_ref(c["a"][-1]) if c.get("a") else None
        inherits = False
        if arg is not None and ign_param:
            for y in em.walk():
                if y.get("k") == "decls":
                    for dd in y["d"]:
                        if dd.get("d") == arg["d"] and dd.get("init") is not None:
                            inherits = any((z.get("d") == ign_param[0]["d"]) for z in walk(dd["init"]) if z.get("k") == "ref")
            if arg.get("d") == ign_param[0]["d"]:
                inherits = True
        ctx.ob("R15.7", "expand_manifests|%s|inherits-outer-ignore-set" % callee_short(c), inherits, em.loc(c),
               "the set handed to %s() %s the caller's `%s`" % (callee_short(c), "starts from" if inherits else "does NOT include", ign_param[0]["n"] if ign_param else "?"))
    # the manifest looked up must not be in the ignore set
    ok = any(c.get("k") == "call" and callee_short(c) == "count" and (local_ref(c.get("this")) or {}).get("dk") == "param" for c in em.walk())
    ctx.ob("R15.7", "expand_manifests|consults-ignore-set", ok, em.loc(), "a manifest in the ignore set is not expanded again")
    ex = db.fn("CPPPreprocessor::expand_manifest")
    ins = [c for c in ex.walk() if c.get("k") == "call" and callee_short(c) == "insert" and "this" in c]
    exps = [c for c in ex.calls("CPPManifest::expand")]
    ok = bool(ins) and bool(exps) and ex.cfg.locate(ins[0])[0] in ex.cfg.dominators().get(ex.cfg.locate(exps[0])[0], ())
    ctx.ob("R15.7", "expand_manifest|insert-before-expand", ok, ex.loc(), "ignores.insert(manifest) dominates manifest->expand(…)")
    pe = db.fn("CPPPreprocessor::push_expansion")
    sets = [n for n in pe.walk() if assigned_target(n) and (field_of(assigned_target(n)[0]) or "").endswith("_ignore_manifest") and const_int(assigned_target(n)[1]) == 1]
    link = [n for n in pe.walk() if assigned_target(n) and field_of(assigned_target(n)[0]) == "CPPPreprocessor::_infile"]
    ok = False
    if sets and link:
        lb = pe.cfg.locate(link[0])[0]
        ok = lb not in pe.cfg.reachable(cut_blocks=[pe.cfg.locate(s)[0] for s in sets])
    ctx.ob("R15.7", "push_expansion|suppresses-own-macro-on-every-path", ok, pe.loc(sets[0]) if sets else pe.loc(),
           "the pushed expansion sets _ignore_manifest on every path" if ok else
           "_ignore_manifest is set only for object-like macros: a function-like macro is re-expanded inside its own expansion "
           "(`#define F(x) F(x)` / `F(1)` recurses until the stack overflows)")



INPUT_READS = {"get", "peek", "skip_whitespace", "skip_comment", "skip_c_comment", "skip_cpp_comment", "skip_digit_separator", "internal_get"}
CTYPE = {"isspace", "isalnum", "isdigit", "isalpha", "isxdigit", "isupper", "islower", "ispunct", "isprint", "isgraph"}
EOF_LOOP_EXEMPT = {
    "CPPPreprocessor::peek": "the loop runs while c == EOF *and* an including file remains: it walks up the finite include stack, it does not consume input",
}


def scanner_loops(ctx):
    """R15.8 (termination at end of input): get() returns EOF for ever once the input is exhausted, so a loop that keeps
    calling it must not be able to cycle when its look-ahead character is EOF."""
    db = ctx.db
    n = 0
    for f in db.functions:
        if not (f.file.endswith("cppPreprocessor.cxx") or f.file.endswith("cppManifest.cxx")):
            continue
        cfg = f.cfg
        for lp in f.walk():
            if lp.get("k") not in ("while", "do", "for"):
                continue
            reads = {}
            for x in walk(lp.get("body") or {}):
                t = assigned_target(x)
                if t:
                    r = strip_casts(peel(t[1]))
                    l = local_ref(t[0])
                    if l is not None and r is not None and r.get("k") == "call" and callee_short(r) in INPUT_READS:
                        reads.setdefault(l["d"], (l["n"], []))[1].append(x)
            for d, (nm, sites) in reads.items():
                n += 1
                inst = "%s|loop@%s|%s" % (f.name, _norm(show(lp.get("c")))[:40] if lp.get("c") else lp["k"], nm)
                if f.name in EOF_LOOP_EXEMPT:
                    ctx.ob("R15.8", inst + "|exception", True, f.loc(lp), "reasoned exception: " + EOF_LOOP_EXEMPT[f.name])
                    continue

                def not_eof(atom, truth, d=d):
                    if atom.get("k") == "call" and callee_short(atom) in CTYPE and atom.get("a"):
                        return truth and (local_ref(atom["a"][0]) or {}).get("d") == d
                    c = G.cmp_atom(atom)
                    if not c:
                        return False
                    op, a, b = c
                    if not truth:
                        op = G.NEG[op]
                    for u, v, o in ((a, b, op), (b, a, G.SWAP[op])):
                        if (local_ref(u) or {}).get("d") != d:
                            continue
                        k = const_int(v)
                        if k is None:
                            continue
                        if o == "!=" and k == -1:
                            return True
                        if o == "==" and k >= 0:
                            return True
                        if o in (">=",) and k >= 0:
                            return True
                        if o == ">" and k >= -1:
                            return True
                    return False
                cut = set(G.edges_where(f, not_eof))
                bad = None
                # a cycle through the loop's own test (its left-most leaf is evaluated on every iteration), or through a
                # read of the character, that survives once every edge implying c != EOF is removed
                anchors = list(sites)
                leaf = lp.get("c")
                while leaf is not None:
                    q = peel(leaf)
                    if q is not None and q.get("k") == "bin" and q.get("op") in ("&&", "||"):
                        leaf = q["x"]
                    elif q is not None and q.get("k") == "un" and q.get("op") == "!":
                        leaf = q["e"]
                    else:
                        leaf = q
                        break
                if leaf is not None and lp.get("k") != "do":
                    anchors.append(leaf)
                for x in anchors:
                    loc = cfg.locate(x)
                    if loc is None:
                        continue
                    seen = set()
                    for idx, s0 in enumerate(cfg.blocks[loc[0]].succs):
                        if s0 is not None and (loc[0], idx) not in cut:
                            seen |= cfg.reachable(s0, cut_edges=cut)
                    if loc[0] in seen:
                        bad = x
                ctx.ob("R15.8", inst, bad is None, f.loc(lp),
                       "the loop %s" % ("cannot go round once `%s` is EOF" % nm if bad is None else "can go round again after `%s` with %s == EOF: no test implying %s != EOF lies on the cycle" % (show(bad), nm, nm)))
    ctx.floor("R15.8", "scanner loops that re-read their look-ahead", n, 28)




# increments that need no test, with the reason
CURSOR_EXEMPT = {
    ("CPPManifest::extract_args", "q", 0): "`q++` sits under `if (q == p)` inside `while (p < expr.size())`: q == p < expr.size()",
    ("CPPManifest::parse_parameters", "p", 0): "precondition args[p] == '(' (asserted; both callers test it before the call), so p < args.size() on entry",
    ("CPPManifest::extract_args", "p", "dead"): "the `else if (expr[p] == '\"' ...)` arm is only reached when expr[p] == '(' held: dead code",
}


def string_cursors(ctx, thorough):
    """R15.9: std::string positions beyond size() throw std::out_of_range (substr, compare, erase, at) or are undefined
    (operator[] beyond size()); with exceptions disabled that is an abort.  The scanners walk strings with hand-kept
    cursors; the invariant p <= X.size() is kept iff every increment happens under p < X.size()."""
    db = ctx.db
    n_inc = n_un = 0
    for f in db.functions:
        if "/cppparser/" not in f.file or "bison" in f.file.lower():
            continue
        if not thorough and not (f.file.endswith("cppManifest.cxx") or f.file.endswith("cppPreprocessor.cxx")):
            continue
        cur = {}
        uses = {}
        for n in f.walk():
            if n.get("k") == "call" and (n.get("f") or "").startswith("std::basic_string::"):
                nm = callee_short(n)
                if nm == "operator[]" and len(n.get("a", [])) == 2:
                    cont, ix = n["a"][0], n["a"][1]
                elif nm in ("substr", "compare", "erase", "at") and "this" in n and n.get("a"):
                    cont, ix = n["this"], n["a"][0]
                else:
                    continue
                r = local_ref(strip_casts(peel(ix)))
                if r is not None and r.get("dk") in ("local", "param"):
                    cur.setdefault(r["d"], (r["n"], show(peel(cont))))
                    if cur[r["d"]][1] == show(peel(cont)):
                        uses.setdefault(r["d"], []).append(n)
        if not cur:
            continue
        cfg = f.cfg
        byref = {p["d"] for p in f.params if p["t"].rstrip().endswith("&") and "const" not in p["t"]}
        for d, (nm, X) in cur.items():
            incs, resets = [], []
            for n in f.walk():
                k = n.get("k")
                if k == "un" and n.get("op") in ("++", "post++") and (local_ref(n.get("e")) or {}).get("d") == d:
                    incs.append(n)
                elif k == "bin" and n.get("op") == "+=" and (local_ref(n.get("x")) or {}).get("d") == d:
                    incs.append(n)
                elif k == "bin" and n.get("op") in ("=", "-=") and (local_ref(n.get("x")) or {}).get("d") == d:
                    resets.append(n)
                elif k == "un" and n.get("op") in ("--", "post--") and (local_ref(n.get("e")) or {}).get("d") == d:
                    resets.append(n)
                elif k == "call" and callee_short(n) not in ("operator[]", "substr", "compare", "erase", "at"):
                    if any(a is not None and a.get("k") == "ref" and a.get("d") == d for a in n.get("a", [])):
                        resets.append(n)       # handed to a callee by reference: the callee keeps the invariant (it is judged itself)
            if not incs:
                continue

            def lt_size(atom, truth, d=d, X=X):
                c = G.cmp_atom(atom)
                if not c:
                    return False
                op, a, b = c
                if not truth:
                    op = G.NEG[op]
                for u, v, o in ((a, b, op), (b, a, G.SWAP[op])):
                    if (local_ref(u) or {}).get("d") == d:
                        vv = strip_casts(peel(v))
                        if vv is not None and vv.get("k") == "call" and callee_short(vv) in ("size", "length") and show(peel(vv.get("this"))) == X:
                            return o in ("<", "!=")
                    uu = strip_casts(peel(u))
                    # X[p] == K with K != 0: std::string guarantees X[size()] == 0, so p < size()
                    if uu is not None and uu.get("k") == "call" and callee_short(uu) == "operator[]" and len(uu.get("a", [])) == 2 \
                            and (local_ref(uu["a"][1]) or {}).get("d") == d and show(peel(uu["a"][0])) == X:
                        k0 = const_int(v)
                        if k0 is not None and ((o == "==" and k0 != 0) or (o == "!=" and k0 == 0)):
                            return True
                if atom.get("k") == "call" and callee_short(atom) in CTYPE and atom.get("a"):
                    a0 = strip_casts(peel(atom["a"][0]))
                    if truth and a0 is not None and a0.get("k") == "call" and callee_short(a0) == "operator[]" and len(a0.get("a", [])) == 2 \
                            and (local_ref(a0["a"][1]) or {}).get("d") == d and show(peel(a0["a"][0])) == X:
                        return True
                return False
            cut = set(G.edges_where(f, lt_size))

            def after(loc, pos_ok=True, stop_blocks=()):
                """blocks reachable after location loc without crossing a `p < size` edge"""
                seen = set()
                for idx, s0 in enumerate(cfg.blocks[loc[0]].succs):
                    if s0 is not None and (loc[0], idx) not in cut:
                        seen |= cfg.reachable(s0, cut_edges=cut, cut_blocks=stop_blocks)
                return seen
            mods = incs + resets
            mod_locs = [(m, cfg.locate(m)) for m in mods if cfg.locate(m) is not None]
            ordn = 0
            for inc in sorted(incs, key=lambda x: (f.line_of(x), x["i"])):
                li = cfg.locate(inc)
                if li is None:
                    continue
                n_inc += 1
                # guarded: since the previous change of p (or entry) a test p < size lies on every path
                guarded = True
                for m, lm in [(None, (cfg.entry, -1))] + mod_locs:
                    if lm[0] == li[0] and lm[1] < li[1] and m is not inc:
                        # same block: is there a test between them?  blocks end at branches, so no
                        guarded = False
                        break
                    if li[0] in after(lm):
                        guarded = False
                        break
                if guarded:
                    continue
                n_un += 1
                key = (f.name, nm, ordn)
                ordn += 1
                # which uses can see the overshoot?
                reset_blocks = [lm[0] for m, lm in mod_locs if m in resets and lm[0] != li[0]]
                seen = after(li, stop_blocks=reset_blocks)
                hit = None
                for u in uses.get(d, []):
                    lu = cfg.locate(u)
                    if lu is None:
                        continue
                    if (lu[0] == li[0] and lu[1] > li[1]) or lu[0] in seen:
                        # operator[] exactly at size() is defined; one unguarded increment can reach size()+1
                        hit = u
                        break
                escapes = d in byref and (cfg.exit in seen or any(b in seen for b in cfg.blocks if cfg.exit in cfg.blocks[b].succs))
                if hit is None and escapes:
                    # the overshoot reaches the caller: does a caller use the cursor before testing it again?
                    pidx = [i for i, pp in enumerate(f.params) if pp["d"] == d][0]
                    obs = _caller_observes(db, f, pidx)
                    if obs is None:
                        escapes = False
                    else:
                        hit_caller = obs
                if hit is None and not escapes:
                    ctx.ob("R15.9", "%s|%s|increment#%d|overshoot-unobserved" % key, True, f.loc(inc), "`%s` can pass %s.size(), but every later use is behind a new test" % (show(inc), X))
                    continue
                ex = CURSOR_EXEMPT.get(key) or next((v for k2, v in CURSOR_EXEMPT.items() if k2[0] == f.name and k2[1] == nm and k2[2] == "dead" and _dead_arm(f, inc)), None)
                if ex:
                    ctx.ob("R15.9", "%s|%s|increment#%d|exception" % key, True, f.loc(inc), "reasoned exception: " + ex)
                    continue
                ctx.ob("R15.9", "%s|%s|increment#%d" % key, False, f.loc(inc),
                       "`%s` is not preceded by a test implying %s < %s.size(), and %s" % (show(inc), nm, X, ("`%s` (line %d) uses the cursor afterwards without one" % (show(hit)[:40], f.line_of(hit))) if hit is not None else "the cursor is handed back to the caller, where %s" % hit_caller))
    ctx.floor("R15.9", "cursor increments examined", n_inc, 40)
    ctx.info("R15.9: %d increments examined, %d of them not preceded by a bounds test" % (n_inc, n_un))


def _caller_observes(db, f, pidx):
    """Does some caller of f use the cursor it passed (by reference, parameter pidx) as a string position - or hand it
    on - before testing it against the string's size again?  -> description or None."""
    for g in db.functions:
        if "/cppparser/" not in g.file:
            continue
        for c in g.walk():
            if c.get("k") != "call" or c.get("f") != f.name or c.get("s") != f.sig or len(c.get("a", [])) <= pidx:
                continue
            a = c["a"][pidx]
            r = a if (a is not None and a.get("k") == "ref") else None
            if r is None or r.get("dk") not in ("local", "param"):
                return "%s passes something other than a plain variable" % g.name
            d = r["d"]
            cfg = g.cfg
            lc = cfg.locate(c)
            if lc is None:
                continue

            def any_size_test(atom, truth, d=d):
                cc = G.cmp_atom(atom)
                if not cc:
                    return False
                op, x, y = cc
                if not truth:
                    op = G.NEG[op]
                for u, v, o in ((x, y, op), (y, x, G.SWAP[op])):
                    if (local_ref(u) or {}).get("d") == d:
                        vv = strip_casts(peel(v))
                        if vv is not None and vv.get("k") == "call" and callee_short(vv) in ("size", "length"):
                            return o in ("<", "!=", "<=")
                return False
            cut = set(G.edges_where(g, any_size_test))
            reset_at = {}
            for x in g.walk():
                if x.get("k") == "bin" and x.get("op") == "=" and (local_ref(x.get("x")) or {}).get("d") == d and cfg.locate(x) is not None and cfg.locate(x)[0] != lc[0]:
                    lx = cfg.locate(x)
                    reset_at[lx[0]] = min(lx[1], reset_at.get(lx[0], 1 << 30))
            resets = list(reset_at)
            seen = set()
            for idx, s0 in enumerate(cfg.blocks[lc[0]].succs):
                if s0 is not None and (lc[0], idx) not in cut:
                    seen |= cfg.reachable(s0, cut_edges=cut, cut_blocks=resets)
            # a block that assigns the cursor afresh is entered (its statements before the assignment still see the old value)
            entered = {}
            for rb, pos in reset_at.items():
                for pb in cfg.blocks[rb].preds:
                    if (pb in seen or pb == lc[0]) and any(s1 == rb and (pb, i1) not in cut for i1, s1 in enumerate(cfg.blocks[pb].succs)):
                        entered[rb] = pos
            for u in g.walk():
                if u.get("k") != "call" or u is c:
                    continue
                nm = callee_short(u)
                ix = None
                if (u.get("f") or "").startswith("std::basic_string::"):
                    if nm == "operator[]" and len(u.get("a", [])) == 2:
                        ix = u["a"][1]
                    elif nm in ("substr", "compare", "erase", "at") and u.get("a"):
                        ix = u["a"][0]
                if ix is None or (local_ref(strip_casts(peel(ix))) or {}).get("d") != d:
                    continue
                lu = cfg.locate(u)
                if lu is not None and ((lu[0] == lc[0] and lu[1] > lc[1]) or lu[0] in seen or (lu[0] in entered and lu[1] < entered[lu[0]])):
                    return "%s uses it in `%s` (line %d) without testing it again" % (g.name, show(u)[:40], g.line_of(u))
            byref = {pp["d"] for pp in g.params if pp["t"].rstrip().endswith("&") and "const" not in pp["t"]}
            if d in byref and cfg.exit in seen:
                return "%s hands it on to its own caller" % g.name
    return None


def _dead_arm(f, node):
    """node sits in an `else if (X[p] == A ...)` arm of an `if (... || X[p] != B)` whose else implies X[p] == B != A."""
    anc = list(f.ancestors(node))
    for i, a in enumerate(anc):
        if a.get("k") == "if" and i + 1 < len(anc) and anc[i + 1].get("k") == "if" and anc[i + 1].get("else") is a:
            outer = anc[i + 1]
            oc = [G.cmp_atom(x) for x in walk(outer["c"]) if x.get("k") in ("bin", "call")]
            ic = [G.cmp_atom(x) for x in walk(a["c"]) if x.get("k") in ("bin", "call")]
            ne = {(show(c[1]), const_int(c[2])) for c in oc if c and c[0] == "!=" and const_int(c[2]) is not None}
            eq = {(show(c[1]), const_int(c[2])) for c in ic if c and c[0] == "==" and const_int(c[2]) is not None}
            if ne and eq and all(any(e[0] == n0[0] and e[1] != n0[1] for n0 in ne) for e in eq) and any(x is node for x in walk(a.get("then") or {})):
                return True
    return False




INFILE_EXEMPT = {
    "CPPPreprocessor::error": "inside `if (!infiles.empty())`, and infiles is filled by walking the chain that starts at _infile: non-empty implies _infile != nullptr",
}


def infile_derefs(ctx):
    """R15.10: get() pops the finished InputFile and leaves _infile null at the end of the top-level file - also in the
    middle of a directive whose line is the last of the file and has no newline.  Belief stated by the code itself:
    get()/peek() test `_infile == nullptr`; a dereference elsewhere without the test contradicts it."""
    db = ctx.db
    n = 0
    tested = False
    for f in db.functions:
        if not f.file.endswith("cppPreprocessor.cxx") or not f.name.startswith("CPPPreprocessor::") or "InputFile" in f.name:
            continue
        sites = []
        for x in f.walk():
            b = None
            if x.get("k") == "mem" and x.get("arrow"):
                b = strip_casts(peel(x.get("b")))
            elif x.get("k") == "call" and "this" in x and x.get("arrow", True):
                b = strip_casts(peel(x["this"]))
            if b is not None and b.get("k") == "mem" and (field_of(b) or "").endswith("CPPPreprocessor::_infile"):
                sites.append(x)
        if not sites:
            continue

        def nonnull(atom, truth):
            c = G.cmp_atom(atom)
            if c:
                op, a, b = c
                if not truth:
                    op = G.NEG[op]
                for u, v in ((a, b), (b, a)):
                    if (field_of(u) or "").endswith("CPPPreprocessor::_infile") and v is not None and (strip_casts(v) or {}).get("k") == "nullp":
                        return op == "!="
                return False
            return (field_of(atom) or "").endswith("CPPPreprocessor::_infile") and truth
        edges = G.edges_where(f, nonnull)
        if edges:
            tested = True
        # assignments `_infile = <new object>` also establish it for what follows in the same block
        for x in sites:
            n += 1
            inst = "%s|%s" % (f.name, _norm(show(x))[:40])
            if f.name in INFILE_EXEMPT:
                ctx.ob("R15.10", inst + "|exception", True, f.loc(x), "reasoned exception: " + INFILE_EXEMPT[f.name])
                continue
            ok = G.gated(f, x, edges)
            if not ok:
                # freshly assigned in this block before the use?
                lx = f.cfg.locate(x)
                for y in f.walk():
                    t = assigned_target(y)
                    if t and (field_of(t[0]) or "").endswith("CPPPreprocessor::_infile"):
                        ly = f.cfg.locate(y)
                        r = local_ref(t[1])
                        if ly is not None and lx is not None and ly[0] == lx[0] and ly[1] < lx[1] and r is not None:
                            ok = True
            ctx.ob("R15.10", inst, ok, f.loc(x), "`%s` is %sbehind a test that _infile is not null" % (show(x)[:50], "" if ok else "NOT "))
    if not tested:
        ctx.broken("R15.10: no `_infile == nullptr` test found any more: the premise (get() leaves _infile null) must be re-read")
    ctx.floor("R15.10", "_infile dereferences", n, 3)




TOKEN_READS = {"get_next_token", "internal_get_next_token", "peek_next_token", "parse_type", "parse_const_expr", "parse_expr", "skip_to_end_nested", "skip_to_angle_bracket"}


def token_loops(ctx):
    """R15.11 (termination at end of input, token level): once the input is exhausted every token read returns the
    EOF token and sets _state = S_eof; a loop that keeps reading tokens must test for that on every round."""
    db = ctx.db
    n = 0
    for f in db.functions:
        if not f.file.endswith("cppPreprocessor.cxx"):
            continue
        cfg = f.cfg
        for lp in f.walk():
            if lp.get("k") not in ("while", "do", "for"):
                continue
            reads = [c for c in walk(lp.get("body") or {}) if c.get("k") == "call" and callee_short(c) in TOKEN_READS]
            if not reads:
                continue
            n += 1

            def not_at_eof(atom, truth):
                if atom.get("k") == "call" and callee_short(atom) == "is_eof":
                    return not truth
                c = G.cmp_atom(atom)
                if not c:
                    return False
                op, a, b = c
                if not truth:
                    op = G.NEG[op]
                for u, v, o in ((a, b, op), (b, a, G.SWAP[op])):
                    fu = field_of(u) or ""
                    vv = strip_casts(peel(v))
                    if fu.endswith("CPPPreprocessor::_state") and vv is not None and vv.get("k") == "ref" and vv.get("n", "").endswith("S_eof"):
                        return o == "!="
                    if fu.endswith("CPPToken::_token"):
                        k = const_int(v)
                        if k is None and vv is not None and vv.get("k") == "ref" and vv.get("dk") == "enumc":
                            k = vv.get("v")
                        if k is not None and ((o == "==" and k != 0) or (o == "!=" and k == 0)):
                            return True
                return False
            cut = set(G.edges_where(f, not_at_eof))
            leaf = lp.get("c")
            while leaf is not None:
                q = peel(leaf)
                if q is not None and q.get("k") == "bin" and q.get("op") in ("&&", "||"):
                    leaf = q["x"]
                elif q is not None and q.get("k") == "un" and q.get("op") == "!":
                    leaf = q["e"]
                else:
                    leaf = q
                    break
            anchors = list(reads) + ([leaf] if leaf is not None and lp.get("k") != "do" else [])
            bad = None
            for x in anchors:
                loc = cfg.locate(x)
                if loc is None:
                    continue
                seen = set()
                for idx, s0 in enumerate(cfg.blocks[loc[0]].succs):
                    if s0 is not None and (loc[0], idx) not in cut:
                        seen |= cfg.reachable(s0, cut_edges=cut)
                if loc[0] in seen:
                    bad = x
            ctx.ob("R15.11", "%s|loop@%s" % (f.name, _norm(show(lp.get("c")))[:50] if lp.get("c") else lp["k"]), bad is None, f.loc(lp),
                   "the token loop %s" % ("cannot go round at end of input" if bad is None else "can go round again at end of input: no test of _state / the token against EOF lies on the cycle through `%s`" % show(bad)[:40]))
    ctx.floor("R15.11", "token-consuming loops", n, 5)




def lexer_restore_order(ctx):
    """R15.12: yyerror()/yywarning() report through the global current_lexer; at top level the saved value restored
    at the end of parse_cpp() is null, so a diagnostic issued after the restore is a null dereference."""
    db = ctx.db
    reporters = set()
    for f in db.functions:
        if f.file.endswith("cppBison.cxx") and any(x.get("k") == "mem" and x.get("arrow") and (strip_casts(peel(x.get("b"))) or {}).get("n") == "current_lexer" for x in f.walk()) \
                or (f.file.endswith("cppBison.cxx") and any(x.get("k") == "call" and "this" in x and (strip_casts(peel(x["this"])) or {}).get("n") == "current_lexer" for x in f.walk())):
            if f.name.split("::")[-1] in ("cppyyerror", "cppyywarning", "yyerror", "yywarning"):
                reporters.add(f.name)
    if not reporters:
        ctx.broken("R15.12: no yyerror/yywarning that dereferences current_lexer found")
    n = 0
    for nm in ("parse_cpp", "parse_const_expr", "parse_type"):
        for f in db.fns(nm):
            if not f.file.endswith("cppBison.cxx"):
                continue
            cfg = f.cfg
            restores = []
            installs = []
            for x in f.walk():
                t = assigned_target(x)
                if t and (strip_casts(peel(t[0])) or {}).get("n") == "current_lexer":
                    r = local_ref(t[1])
                    (restores if (r is not None and r.get("dk") == "local") else installs).append(x)
            if not restores or not installs:
                ctx.broken("%s: install/restore of current_lexer not found" % nm)
            n += 1
            parse = [c for c in f.walk() if c.get("k") == "call" and callee_short(c) in ("cppyyparse", "yyparse")]
            uses = [c for c in f.walk() if c.get("k") == "call" and (c.get("f") in reporters or callee_short(c) in ("cppyyparse", "yyparse"))]
            bad = None
            for r in restores:
                lr = cfg.locate(r)
                seen = set()
                for s0 in cfg.blocks[lr[0]].succs:
                    if s0 is not None:
                        seen |= cfg.reachable(s0)
                for u in uses:
                    lu = cfg.locate(u)
                    if lu is not None and ((lu[0] == lr[0] and lu[1] > lr[1]) or lu[0] in seen):
                        bad = u
            ctx.ob("R15.12", "%s|no-report-after-restore" % nm, bad is None, f.loc(restores[0]),
                   "after `%s` %s" % (show(restores[0])[:40], "nothing reports through current_lexer" if bad is None else "`%s` (line %d) still reports through it" % (show(bad)[:40], f.line_of(bad))))
            # installed before parsing
            ok = bool(parse) and all(cfg.locate(i) is not None for i in installs) and all(
                (cfg.locate(i)[0] == cfg.locate(parse[0])[0] and cfg.locate(i)[1] < cfg.locate(parse[0])[1]) or
                cfg.locate(parse[0])[0] in cfg.reachable(cfg.locate(i)[0]) for i in installs)
            ctx.ob("R15.12", "%s|installed-before-parse" % nm, ok, f.loc(installs[0]), "current_lexer is installed before yyparse()")
    ctx.floor("R15.12", "parser entry points", n, 3)




def construction_stacks(ctx):
    """R15.13: definitions nest (a class inside a class, an enum inside sizeof() inside an enumerator's initialiser).
    The actions keep `the entity being defined` in file-scope statics; after the inner definition the outer one must be
    current again, otherwise its next member is added to a null pointer."""
    db = ctx.db
    n = 0
    fns = [f for f in db.functions if f.file.endswith("cppBison.cxx")]
    if not fns:
        ctx.broken("generated parser not found")
    for gname in ("current_enum", "current_struct"):
        news, nulls, pops, pushes = [], [], [], []
        for f in fns:
            for x in f.walk():
                t = assigned_target(x)
                if t and (strip_casts(peel(t[0])) or {}).get("n") == gname and (strip_casts(peel(t[0])) or {}).get("dk") == "global":
                    r = strip_casts(peel(t[1]))
                    if r is None:
                        continue
                    if r.get("k") == "new" or (r.get("k") == "ref" and r.get("dk") in ("param", "local")):
                        news.append((f, x))
                    elif r.get("k") == "nullp":
                        nulls.append((f, x))
                    elif r.get("k") == "call" and callee_short(r) in ("back", "top"):
                        pops.append((f, x))
                if x.get("k") == "call" and callee_short(x) in ("push_back", "push") and any((strip_casts(peel(a)) or {}).get("n") == gname for a in x.get("a", [])):
                    pushes.append((f, x))
        if not news:
            ctx.broken("no assignment `%s = <new object>` found in the parser" % gname)
        n += len(news)
        for f, x in nulls:
            ctx.ob("R15.13", "%s|reset-to-null" % gname, False, f.loc(x), "`%s` drops the enclosing definition: after a nested one its next member is added through a null pointer" % show(x))
        for f, x in news:
            lx = f.cfg.locate(x)
            ok = any(g is f and f.cfg.locate(p) is not None and lx is not None and f.cfg.locate(p)[0] == lx[0] and f.cfg.locate(p)[1] < lx[1] for g, p in pushes)
            ctx.ob("R15.13", "%s|pushed-before-replaced" % gname, ok, f.loc(x), "`%s` is %spreceded by a push of the previous %s" % (show(x)[:50], "" if ok else "NOT ", gname))
        ctx.ob("R15.13", "%s|popped-at-end" % gname, bool(pops), fns[0].loc(), "%d place(s) restore %s from the stack" % (len(pops), gname))
    ctx.floor("R15.13", "sites starting a class/enum definition", n, 3)
    # the declared type of `T a = ..., b;`: set where the declarators begin (the block that also pushes the storage
    # class); an initializer can contain a class definition whose members are declarations themselves
    n_t = 0
    for f in fns:
        for x in f.walk():
            t = assigned_target(x)
            if not t or (strip_casts(peel(t[0])) or {}).get("n") != "current_type" or (strip_casts(peel(t[0])) or {}).get("dk") != "global":
                continue
            lx = f.cfg.locate(x)
            if lx is None:
                continue
            comp = None
            for a in f.ancestors(x):
                if a.get("k") in ("switch", "case", "default"):
                    break
                if a.get("k") == "block" and any(c.get("k") == "call" and callee_short(c) == "push_storage_class" for c in walk(a)):
                    comp = a
                    break
            starts_decl = comp is not None
            comp_pushed = comp is not None and any(c.get("k") == "call" and callee_short(c) == "push_back" and any((strip_casts(peel(a2)) or {}).get("n") == "current_type" for a2 in c.get("a", [])) for c in walk(comp))
            if not starts_decl:
                continue
            n_t += 1
            ctx.ob("R15.13", "current_type|pushed-before-replaced", bool(comp_pushed), f.loc(x), "the declared type of a declarator list is %ssaved before it is replaced" % ("" if comp_pushed else "NOT "))
    ctx.floor("R15.13", "declarator-list sites setting current_type", n_t, 2)




def containment_recursion(ctx):
    """R15.14: cppparser does not check that a member's type is complete, so `class P { __published: P m; };` (or two
    classes containing each other) builds a cyclic containment graph.  A predicate that calls itself on each member's
    type then recurses until the stack overflows.  (Base-class recursion is not judged: a class is only entered in
    _derivation by the grammar once its name resolves to an earlier definition.)"""
    db = ctx.db
    n = 0
    guard_classes = set()
    for f in db.methods_of("CPPStructType"):
        short = f.name.split("::")[-1]
        rec = []
        for c in f.walk():
            if c.get("k") == "call" and callee_short(c) == short and "this" in c:
                t = strip_casts(peel(c["this"]))
                # through a member instance's type: <instance>->_type->short()
                if t is not None and any(x.get("k") == "mem" and x.get("n", "").endswith("CPPInstance::_type") for x in walk(t)):
                    rec.append(c)
        if not rec:
            continue
        n += 1
        guards = [x for x in f.walk() if assigned_target(x) and (field_of(assigned_target(x)[0]) or "").startswith("CPPStructType::") and "protect" in (field_of(assigned_target(x)[0]) or "")]
        ok = bool(guards)
        if not ok:
            # the other idiom: a function-static set of the classes being judged, `this` registered in it by a local
            # object (constructed from the set and `this`), and an early return when `this` was already there - which must
            # come before the first recursive call
            statics = {}
            for y in f.walk():
                if y.get("k") == "decls":
                    for d in y["d"]:
                        if d.get("static") or d.get("sc") == "static":
                            statics[d["d"]] = d
            reg = None
            for y in f.walk():
                if y.get("k") == "decls":
                    for d in y["d"]:
                        init = strip_casts(peel(d.get("init"))) if d.get("init") is not None else None
                        if init is not None and init.get("k") == "ctor" and len(init.get("a", [])) >= 2:
                            a0, a1 = local_ref(init["a"][0]), strip_casts(peel(init["a"][1]))
                            if a0 is not None and a0.get("d") in statics and a1 is not None and a1.get("k") == "this":
                                reg = d
            if reg is not None:
                def reentered(atom, truth, reg=reg):
                    a = strip_casts(peel(atom)) if atom is not None else None
                    return a is not None and a.get("k") == "call" and (local_ref(a.get("this")) or {}).get("d") == reg["d"] and not truth
                edges = G.edges_where(f, reentered)
                ok = bool(edges) and all(G.gated(f, c, edges) for c in rec)
                if ok:
                    guard_classes.add((reg.get("t") or "").replace("class ", "").strip())
        ctx.ob("R15.14", "%s|recursion-guard" % f.name, ok, f.loc(rec[0]),
               "%s() calls itself on every member's type %s a recursion guard" % (short, "behind" if ok else "WITHOUT"))
    ctx.floor("R15.14", "predicates recursing over member types", n, 5)
    # the guard object the predicates rely on: constructing it enters the class in the set and remembers whether it was
    # new; the question the predicates ask is the negation of that; and destroying it takes the class out again (else the
    # next, unrelated, query about the same class would be answered "recursive").
    for gc in sorted(guard_classes):
        fs = [g for g in db.functions if g.name.startswith(gc + "::")]
        ctor = [g for g in fs if g.name == "%s::%s" % (gc, gc.split("::")[-1])]
        dtor = [g for g in fs if g.name.split("::")[-1].startswith("~")]
        if not ctor or not dtor:
            ctx.broken("R15.14: guard class %s has no analysed constructor/destructor" % gc)
            continue
        fresh = set()      # members initialised from insert(...).second
        inserts = False
        for g in ctor:
            for ini in g.d.get("inits", []):
                e = ini.get("e")
                if e is None:
                    continue
                calls = [c for c in walk(e) if c.get("k") == "call" and callee_short(c) == "insert"]
                if calls:
                    inserts = True
                    if any(x.get("k") == "mem" and x.get("n", "").endswith("::second") for x in walk(e)) and \
                       not any(x.get("k") == "un" and x.get("op") == "!" for x in walk(e)):
                        fresh.add(ini.get("m"))
            for c in (walk(g.body) if g.body else []):
                if c.get("k") == "call" and callee_short(c) == "insert":
                    inserts = True
        ctx.ob("R15.14", "%s|constructor-registers" % gc, inserts and bool(fresh), ctor[0].loc(),
               "constructing the guard inserts the class into the in-progress set and records whether it was new (%s)" % (", ".join(sorted(fresh)) or "NOT recorded"))
        asks = [g for g in fs if g not in ctor and g not in dtor]
        for g in asks:
            rets = [r for r in g.walk() if r.get("k") == "ret"]
            good = bool(rets)
            for r in rets:
                e = strip_casts(peel(r.get("e")))
                good = good and e is not None and e.get("k") == "un" and e.get("op") == "!" and \
                    (strip_casts(peel(e["e"])) or {}).get("k") == "mem" and strip_casts(peel(e["e"])).get("n") in fresh
            ctx.ob("R15.14", "%s|answers-not-new" % g.name, good, g.loc(),
                   "%s() is true exactly when the class was already in the set" % g.name.split("::")[-1])
        erased = False
        for g in dtor:
            for c in g.walk():
                if c.get("k") == "call" and callee_short(c) == "erase":
                    # only what this guard itself inserted is removed: the erase sits under the "was new" flag
                    edges = G.edges_where(g, lambda atom, truth: truth and (strip_casts(peel(atom)) or {}).get("k") == "mem" and strip_casts(peel(atom)).get("n") in fresh)
                    erased = bool(edges) and G.gated(g, c, edges)
        ctx.ob("R15.14", "%s|destructor-unregisters" % gc, erased, dtor[0].loc(),
               "destroying the guard erases the class from the set, and only when this guard inserted it")




THROWING = {"std::stoi", "std::stol", "std::stoll", "std::stoul", "std::stoull", "std::stof", "std::stod", "std::stold",
            "std::__cxx11::stoi", "std::__cxx11::stol", "std::__cxx11::stoll", "std::__cxx11::stoul", "std::__cxx11::stoull",
            "std::__cxx11::stof", "std::__cxx11::stod", "std::__cxx11::stold"}


def throwing_conversions(ctx):
    """R15.15: an uncaught exception is an abort.  strtol()/pstrtod() saturate or stop at the first bad character; the
    std::sto* family throws std::invalid_argument / std::out_of_range instead, and nothing in the tools catches."""
    db = ctx.db
    n_fn = n_bad = 0
    catches = 0
    for f in db.functions:
        if not any(d in f.file for d in ("/cppparser/", "/interrogate/", "/interrogatedb/")):
            continue
        n_fn += 1
        for c in f.walk():
            if c.get("k") == "call" and ((c.get("f") or "") in THROWING or ((c.get("f") or "").startswith("std::") and callee_short(c) in ("stoi", "stol", "stoll", "stoul", "stoull", "stof", "stod", "stold"))):
                n_bad += 1
                ctx.ob("R15.15", "%s|%s" % (f.name, callee_short(c)), False, f.loc(c), "`%s` throws on input it rejects (too large, no digits); nothing catches it: abort" % show(c)[:60])
    ctx.ob("R15.15", "no-throwing-conversions", n_bad == 0, "src", "%d functions scanned, %d throwing conversions" % (n_fn, n_bad))
    ctx.floor("R15.15", "functions scanned", n_fn, 1500)



INITIALIZER_EXEMPT = {
    # function: reason (read and confirmed)
    "CPPEnumType::substitute_decl|enumerator": "an enumerator always has a value expression: add_element, the only function that appends to _elements, "
                                               "synthesises one when none is written (checked as obligations of this rule)",
    "CPPInstance::output|parameter-expr": "in the is_parameter_expr() branch: an instance of type T_parameter is only made by the grammar's formal_parameter "
                                           "action, which sets the initializer; the one place that clears initializers for a while (CPPParameterList::output) "
                                           "is checked separately not to touch parameter expressions",
}


def _nullable_field_sites(db, FIELD, dirs=("/cppparser/", "/interrogate/")):
    """(function, dereferencing node, field node, normalised spelling of the field expression, guarded?) for every
    dereference (->, member call, unary *) of the pointer member FIELD.  guarded = the node is unreachable once every
    edge that establishes `<same spelling> != nullptr` is cut."""
    for f in db.functions:
        if "bison" in f.file or not any(d in f.file for d in dirs):
            continue
        sites = []
        for x in f.walk():
            b = None
            if x.get("k") == "mem" and x.get("arrow"):
                b = strip_casts(peel(x.get("b")))
            elif x.get("k") == "call" and "this" in x and x.get("arrow", True):
                b = strip_casts(peel(x["this"]))
            elif x.get("k") == "un" and x.get("op") == "*":
                b = strip_casts(peel(x.get("e")))
            if b is not None and b.get("k") == "mem" and (field_of(b) or "").endswith(FIELD):
                sites.append((x, b))
        for x, b in sites:
            key = _norm(show(b))

            def nonnull(atom, truth, key=key):
                c = G.cmp_atom(atom)
                if c:
                    op, u, v = c
                    if not truth:
                        op = G.NEG[op]
                    for p, q in ((u, v), (v, u)):
                        pp = strip_casts(peel(p)) if p is not None else None
                        if pp is not None and (field_of(pp) or "").endswith(FIELD) and _norm(show(pp)) == key and q is not None and (strip_casts(q) or {}).get("k") == "nullp":
                            return op == "!="
                    return False
                a = strip_casts(peel(atom)) if atom is not None else None
                return a is not None and (field_of(a) or "").endswith(FIELD) and _norm(show(a)) == key and truth
            edges = G.edges_where(f, nonnull)
            yield f, x, b, key, G.gated(f, x, edges)


def nullable_initializer(ctx):
    """R15.16: CPPInstance::_initializer is null for every variable without an initializer.  Every dereference is behind
    a test that it is not null (same base expression), with one reasoned exception that is itself made an obligation:
    the parameter-expression branch of CPPInstance::output relies on CPPParameterList::output not clearing the
    initializer of a parameter expression (F-C15l: `int operator [](n) const;` -> SIGSEGV)."""
    db = ctx.db
    ctx.rule("R15.16", "every dereference of CPPInstance::_initializer (->, unary *) is dominated by a test that the same expression is not null; CPPParameterList::output, which clears default values while it prints, leaves the initializer of a parameter expression alone")
    FIELD = "CPPInstance::_initializer"
    n = 0
    if True:
        for f, x, b, key, ok in _nullable_field_sites(db, FIELD):
            n += 1
            inst = "%s|%s" % (f.name, _norm(show(x))[:50])
            if not ok and f.name == "CPPInstance::output":
                pe = G.edges_where(f, lambda atom, truth: truth and atom is not None and atom.get("k") == "call" and callee_short(atom) == "is_parameter_expr")
                if G.gated(f, x, pe):
                    ctx.ob("R15.16", inst + "|exception", True, f.loc(x), "reasoned exception: " + INITIALIZER_EXEMPT["CPPInstance::output|parameter-expr"])
                    continue
            if not ok and f.name == "CPPEnumType::substitute_decl" and key.startswith("element->"):
                ctx.ob("R15.16", inst + "|exception", True, f.loc(x), "reasoned exception: " + INITIALIZER_EXEMPT["CPPEnumType::substitute_decl|enumerator"])
                _enumerators_always_valued(ctx)
                continue
            ctx.ob("R15.16", inst, ok, f.loc(x), "`%s` is %sbehind a test that %s is not null" % (show(x)[:50], "" if ok else "NOT ", key))
    ctx.floor("R15.16", "dereferences of CPPInstance::_initializer", n, 8)
    # the premise of the parameter-expression exception
    f = db.fn("CPPParameterList::output")
    clears = [y for y in f.walk() if assigned_target(y) and (field_of(assigned_target(y)[0]) or "").endswith(FIELD)
              and (strip_casts(peel(assigned_target(y)[1])) or {}).get("k") == "nullp"]
    if not clears:
        ctx.ob("R15.16", "CPPParameterList::output|clears-no-initializer", True, f.loc(), "no longer clears initializers while printing")
    not_pe = G.edges_where(f, lambda atom, truth: (not truth) and atom is not None and atom.get("k") == "call" and callee_short(atom) == "is_parameter_expr")
    for i, y in enumerate(clears):
        ok = G.gated(f, y, not_pe)
        ctx.ob("R15.16", "CPPParameterList::output|clear#%d|spares-parameter-expressions" % i, ok, f.loc(y),
               "the temporary `_initializer = nullptr` is %sbehind !is_parameter_expr(): CPPInstance::output prints a parameter expression by dereferencing it" % ("" if ok else "NOT "))


def _enumerators_always_valued(ctx):
    """Premise of the enumerator exception of R15.16: an element of CPPEnumType::_elements never has a null initializer."""
    db = ctx.db
    FIELD = "CPPInstance::_initializer"
    writers = {}
    for f in db.functions:
        if "bison" in f.file or not any(d in f.file for d in ("/cppparser/", "/interrogate/")):
            continue
        for x in f.walk():
            if x.get("k") == "call" and callee_short(x) in ("push_back", "emplace_back", "insert", "resize", "assign") and "this" in x \
                    and (field_of(strip_casts(peel(x["this"]))) or "").endswith("CPPEnumType::_elements"):
                writers.setdefault(f.name, []).append(x)
    extra = sorted(set(writers) - {"CPPEnumType::add_element"})
    ctx.ob("R15.16", "CPPEnumType::_elements|only-add_element-appends", not extra and "CPPEnumType::add_element" in writers,
           "src/cppparser/cppEnumType.cxx", "enumerators are appended by %s" % sorted(writers))
    f = db.fn("CPPEnumType::add_element")
    sets = [y for y in f.walk() if assigned_target(y) and (field_of(assigned_target(y)[0]) or "").endswith(FIELD)]
    ok = False
    detail = "add_element does not assign the new element's _initializer"
    if len(sets) == 1:
        a = sets[0]
        src = local_ref(assigned_target(a)[1])
        ablk = f.cfg.locate(a)[0]
        # (1) every path from the append to the exit passes the assignment
        pb = [f.cfg.locate(x)[0] for x in writers.get(f.name, [])]
        through = all(f.cfg.exit not in f.cfg.reachable(b, cut_blocks=[ablk]) or b == ablk for b in pb)
        # (2) the assigned value is not null: from an edge on which it is known null, the assignment is reached only
        #     through a block that gives it a fresh object (new ... / a static holding one)
        nonnull = False
        if src is not None:
            null_edges = G.edges_where(f, G.local_is_null(src["d"]))
            fresh = set()
            for y in f.walk():
                t = assigned_target(y)
                r = local_ref(t[0]) if t else None
                if r is not None and r.get("d") == src["d"]:
                    v = strip_casts(peel(t[1])) or {}
                    if v.get("k") == "new" or (v.get("k") == "ref" and v.get("dk") == "local" and "const" in (v.get("t") or "")):
                        fresh.add(f.cfg.locate(y)[0])
            nonnull = bool(null_edges)
            for (b, idx) in null_edges:
                tgt = f.cfg.blocks[b].succs[idx]
                if tgt is not None and ablk in f.cfg.reachable(tgt, cut_blocks=fresh):
                    nonnull = False
        ok = through and nonnull
        detail = "the appended element gets `_initializer = %s` on every path (%s) and that value is never null (%s)" % (show(assigned_target(a)[1]), through, nonnull)
    ctx.ob("R15.16", "CPPEnumType::add_element|element-always-valued", ok, f.loc(sets[0]) if sets else f.loc(), detail)


def expr_tokens_carry_expressions(ctx):
    """R15.17: the grammar uses the semantic value of a `%token <u.expr>` directly (`| CUSTOM_LITERAL { $$ = $1; }`) and
    wraps it in operator nodes that evaluate() dereferences.  A token of such a kind must therefore be made with a
    freshly built expression.  (F-C15m: after "no suitable overload" get_literal returned CUSTOM_LITERAL with a null
    expression; `static_assert(1 + "s"_x, "")` -> SIGSEGV.)"""
    db = ctx.db
    ctx.rule("R15.17", "a token whose kind is declared `%token <u.expr>` in the grammar is constructed (CPPToken(...), get_literal(...)) only right after `<value>.u.expr = new ...` in the same block; no `u.expr = nullptr` anywhere in the lexer")
    import re
    from . import C07
    text = db.meta["grammar"]
    names = re.findall(r"^%token\s+<u\.expr>\s+([A-Za-z_][A-Za-z_0-9]*)", text, flags=re.M)
    if not names:
        ctx.broken("R15.17: no `%token <u.expr>` declaration found in the grammar")
    tv = C07.token_values(db)
    vals = {tv[n]: n for n in names if n in tv}
    if len(vals) != len(names):
        ctx.broken("R15.17: token values of %s not found" % names)
    n = 0
    for f in db.functions:
        if not f.file.endswith("cppPreprocessor.cxx"):
            continue
        for y in f.walk():
            t = assigned_target(y)
            if t and (field_of(t[0]) or "").endswith("::expr") and "cppyystype" in (field_of(t[0]) or "") and (strip_casts(peel(t[1])) or {}).get("k") == "nullp":
                ctx.ob("R15.17", "%s|null-expression-value" % f.name, False, f.loc(y), "`%s`: a semantic value with a null expression is prepared for a token" % show(y)[:60])
        for x in f.walk():
            args = None
            if x.get("k") == "ctor" and x.get("f") == "CPPToken::CPPToken" and len(x.get("a", [])) >= 4:
                args = x["a"]
            elif x.get("k") == "call" and callee_short(x) == "get_literal" and len(x.get("a", [])) >= 4:
                args = x["a"]
            if args is None:
                continue
            kind = const_int(args[0])
            if kind not in vals:
                continue
            n += 1
            v = local_ref(args[3])
            lx = f.cfg.locate(x)
            ok = False
            if v is not None and lx is not None:
                for y in f.walk():
                    t = assigned_target(y)
                    if not t or not (field_of(t[0]) or "").endswith("::expr"):
                        continue
                    base = t[0]
                    while base is not None and base.get("k") == "mem":
                        base = strip_casts(peel(base.get("b")))
                    if base is None or base.get("d") != v.get("d"):
                        continue
                    ly = f.cfg.locate(y)
                    if ly is not None and ly[0] == lx[0] and ly[1] < lx[1] and (strip_casts(peel(t[1])) or {}).get("k") == "new":
                        ok = True
            ctx.ob("R15.17", "%s|%s@%s|fresh-expression" % (f.name, vals[kind], callee_short(x) if x.get("k") == "call" else "CPPToken"), ok, f.loc(x),
                   "the %s token's value %s `u.expr = new ...` just before it is made" % (vals[kind], "gets" if ok else "does NOT get"))
    ctx.floor("R15.17", "constructions of expression-carrying tokens", n, 3)


CPPTYPE_EXEMPT = {
    "InterfaceMakerPythonNative::pack_return_value": "the index is builder.get_type() of a type for which is_scoped_enum() holds; get_type returns 0 only for "
                                                      "templates and for names registered as invalid, and an enumeration is neither",
}


def looked_up_types_may_lack_cpptype(ctx):
    """R15.18: InterrogateDatabase::get_type(index) answers an unknown index (0: `typedef V<> VI;` with V a template, a
    typedef whose target was never entered) with a placeholder whose _cpptype is null.  The generator's own belief:
    is_cpp_type_legal() starts with `in_ctype == nullptr`, and three of the five lookups go through it.  Every use of
    <looked-up type>._cpptype must be behind is_cpp_type_legal(<same>) or a null test of it.  (F-C15n.)"""
    db = ctx.db
    ctx.rule("R15.18", "in the generators, X._cpptype of a type X = idb->get_type(index) is used only as the argument of is_cpp_type_legal() / a null test, or behind one of the two holding for the same X")
    n = 0
    legal = db.fn("InterfaceMakerPythonNative::is_cpp_type_legal")
    first_if = next((y for y in legal.walk() if y.get("k") == "if"), None)
    prem = first_if is not None and any((G.cmp_atom(a) or [None, None, None])[0] == "==" and "nullp" in [(strip_casts(z) or {}).get("k") for z in G.cmp_atom(a)[1:]]
                                        for a in [peel(first_if["c"])] if G.cmp_atom(a)) and any(r.get("k") == "ret" for r in walk(first_if["then"]))
    ctx.ob("R15.18", "is_cpp_type_legal|rejects-null", bool(prem), legal.loc(first_if) if first_if else legal.loc(), "is_cpp_type_legal() begins by returning false for a null type")
    for f in db.functions:
        if "/interrogate/" not in f.file:
            continue
        binds = {}
        for y in f.walk():
            if y.get("k") == "decls":
                for d in y["d"]:
                    init = strip_casts(peel(d.get("init"))) if d.get("init") else None
                    if init is not None and init.get("k") == "call" and init.get("f") == "InterrogateDatabase::get_type":
                        binds[d["d"]] = d["n"]
        if not binds:
            continue

        def is_cpptype_of(node, d):
            node = strip_casts(peel(node)) if node is not None else None
            if node is None or node.get("k") != "mem" or not (node.get("n") or "").endswith("InterrogateType::_cpptype"):
                return False
            b = local_ref(node.get("b"))
            return b is not None and b.get("d") == d

        uses = []
        parent_call = {}
        for c in f.walk():
            if c.get("k") == "call":
                for a in c.get("a", []):
                    aa = strip_casts(peel(a))
                    if aa is not None:
                        parent_call[aa.get("i")] = c
        for x in f.walk():
            if x.get("k") == "mem" and (x.get("n") or "").endswith("InterrogateType::_cpptype"):
                b = local_ref(x.get("b"))
                if b is not None and b.get("d") in binds:
                    uses.append((x, b["d"]))
        for x, d in uses:
            n += 1
            inst = "%s|%s._cpptype@%s" % (f.name, binds[d], f.loc(x).split(":")[-1])
            pc = parent_call.get(x.get("i"))
            if pc is not None and callee_short(pc) == "is_cpp_type_legal":
                ctx.ob("R15.18", "%s|%s._cpptype|is-the-test" % (f.name, binds[d]), True, f.loc(x), "argument of is_cpp_type_legal()")
                continue

            def safe(atom, truth, d=d):
                a = strip_casts(peel(atom)) if atom is not None else None
                if a is not None and a.get("k") == "call" and callee_short(a) == "is_cpp_type_legal" and a.get("a") and is_cpptype_of(a["a"][0], d):
                    return truth
                c = G.cmp_atom(atom)
                if c:
                    op, u, v = c
                    if not truth:
                        op = G.NEG[op]
                    for p, q in ((u, v), (v, u)):
                        if is_cpptype_of(p, d) and q is not None and (strip_casts(q) or {}).get("k") == "nullp":
                            return op == "!="
                    return False
                return is_cpptype_of(atom, d) and truth
            edges = G.edges_where(f, safe)
            # the null test itself
            ok = G.gated(f, x, edges)
            if not ok and f.name in CPPTYPE_EXEMPT:
                ctx.ob("R15.18", "%s|%s._cpptype|exception" % (f.name, binds[d]), True, f.loc(x), "reasoned exception: " + CPPTYPE_EXEMPT[f.name])
                continue
            if not ok:
                # is this occurrence itself the operand of the null test?
                for blk_atom in _atoms_of(f):
                    c = G.cmp_atom(blk_atom)
                    if c and any(is_cpptype_of(p, d) and (strip_casts(peel(p)) or {}).get("i") == x.get("i") for p in c[1:]):
                        ok = True
                    if not c and is_cpptype_of(blk_atom, d) and (strip_casts(peel(blk_atom)) or {}).get("i") == x.get("i"):
                        ok = True        # `if (!X._cpptype)` / `if (X._cpptype)`
            ctx.ob("R15.18", inst, ok, f.loc(x), "`%s` is %sbehind is_cpp_type_legal()/a null test of the same value" % (show(x), "" if ok else "NOT "))
    ctx.floor("R15.18", "uses of _cpptype of looked-up database types", n, 8)


def _atoms_of(f):
    out = []

    def leaves(n):
        n = peel(n)
        if n is None:
            return
        if n.get("k") == "bin" and n.get("op") in ("&&", "||"):
            leaves(n["x"]); leaves(n["y"])
        elif n.get("k") == "un" and n.get("op") == "!":
            leaves(n["e"])
        else:
            out.append(n)
    for y in f.walk():
        if y.get("k") in ("if", "while", "for", "do") and y.get("c") is not None:
            leaves(y["c"])
    return out


def nullable_array_bounds(ctx):
    """R15.19: CPPArrayType::_bounds is null for an array of unknown bound (`extern int arr[];`, a flexible member, a
    parameter `int a[]`) - valid C++.  Every dereference is behind a test of the same expression, except the setter
    branch of FunctionRemap::get_call_str, whose guard sits at the other end: TypeManager::is_assignable() answers
    `_bounds != nullptr` for an array and InterrogateBuilder calls get_setter() only behind is_assignable().  Both ends
    are obligations.  (F-C15o: published `extern int arr[];` -> SIGSEGV.)"""
    db = ctx.db
    ctx.rule("R15.19", "every dereference of CPPArrayType::_bounds is dominated by a test that the same expression is not null; the one in get_call_str's setter branch is covered by is_assignable(): its ST_array arm returns `_bounds != nullptr` and get_setter() is called only where is_assignable() held")
    n = 0
    far = []
    for f, x, b, key, ok in _nullable_field_sites(db, "CPPArrayType::_bounds"):
        n += 1
        inst = "%s|%s" % (f.name, _norm(show(x))[:50])
        if not ok and f.name == "FunctionRemap::get_call_str":
            setter = G.edges_where(f, lambda atom, truth: bool(G.cmp_atom(atom)) and (G.cmp_atom(atom)[0] if truth else G.NEG[G.cmp_atom(atom)[0]]) == "=="
                                   and any((field_of(z) or "").endswith("FunctionRemap::_type") for z in G.cmp_atom(atom)[1:] if z is not None)
                                   and any((z or {}).get("dk") == "enumc" and (z.get("n") or "").endswith("::T_setter") for z in G.cmp_atom(atom)[1:] if z is not None))
            if setter and G.gated(f, x, setter):
                far.append((f, x, inst))
                continue
        ctx.ob("R15.19", inst, ok, f.loc(x), "`%s` is %sbehind a test that %s is not null" % (show(x)[:50], "" if ok else "NOT ", key))
    ctx.floor("R15.19", "dereferences of CPPArrayType::_bounds", n, 8)
    if not far:
        return
    # premise 1: is_assignable's array arm
    ia = db.fn("TypeManager::is_assignable")
    arm_ok = False
    where = ia.loc()
    en = db.enums.get("CPPDeclaration::SubType")
    st_array = next((c["v"] for c in en["consts"] if c["n"] == "ST_array"), None) if en else None
    for sw in [y for y in ia.walk() if y.get("k") == "switch"]:
        for labs, stmts in switch_arms(sw):
            if st_array in labs:
                rets = [r for st in stmts for r in walk(st) if r.get("k") == "ret"]
                where = ia.loc(rets[0]) if rets else ia.loc(sw)
                arm_ok = bool(rets)
                for r in rets:
                    c = G.cmp_atom(peel(r.get("e")))
                    good = bool(c) and c[0] == "!=" and any((field_of(strip_casts(peel(z))) or "").endswith("CPPArrayType::_bounds") for z in c[1:] if z is not None) \
                        and any((strip_casts(z) or {}).get("k") == "nullp" for z in c[1:] if z is not None)
                    # `cond && ...` forms: every conjunct list must contain the test
                    if not good:
                        e = peel(r.get("e"))
                        conj = []

                        def flat(m):
                            m = peel(m)
                            if m is not None and m.get("k") == "bin" and m.get("op") == "&&":
                                flat(m["x"]); flat(m["y"])
                            elif m is not None:
                                conj.append(m)
                        flat(e)
                        good = any((G.cmp_atom(m) or [None])[0] == "!=" and any((field_of(strip_casts(peel(z))) or "").endswith("CPPArrayType::_bounds") for z in G.cmp_atom(m)[1:] if z is not None) for m in conj)
                    arm_ok = arm_ok and good
    ctx.ob("R15.19", "TypeManager::is_assignable|ST_array|needs-a-bound", arm_ok, where,
           "an array is assignable only if its bound is known" if arm_ok else "is_assignable() has no ST_array arm answering `_bounds != nullptr`: a setter is synthesised for `extern int arr[];`")
    # premise 2: get_setter only behind is_assignable
    n_calls = 0
    for f in db.functions:
        if "/interrogate/" not in f.file:
            continue
        for c in f.walk():
            if c.get("k") == "call" and c.get("f") == "InterrogateBuilder::get_setter":
                n_calls += 1
                e = G.edges_where(f, G.pred_true("is_assignable"))
                ok = G.gated(f, c, e)
                ctx.ob("R15.19", "%s|get_setter|behind-is_assignable" % f.name, ok, f.loc(c), "get_setter() is %scalled only where is_assignable() held" % ("" if ok else "NOT "))
    ctx.floor("R15.19", "calls of get_setter", n_calls, 1)
    for f, x, inst in far:
        ctx.ob("R15.19", inst + "|guarded-at-synthesis", True, f.loc(x), "setter branch: covered by the two obligations on is_assignable()/get_setter()")


def scopes_do_not_contain_themselves(ctx):
    """R15.20: CPPScope::write()/CPPStructType::output() walk the declarations of a scope and, for a class, the
    declarations of its scope in turn.  A class listed in its own scope (or in a scope nested in it) makes that walk
    endless.  Every other add_declaration() of the parser hands over an object made in the same action; the one that
    hands over the value of `type_decl` - which for a type name is an EXISTING type found by lookup - must first rule out
    that the type's scope is the current scope or one of its ancestors.  (F-C15p: `class Type { Type ; };` hung.)"""
    db = ctx.db
    ctx.rule("R15.20", "in the generated parser, add_declaration(<a declaration taken from the value stack>) is reached only when a flag is false that is set inside a walk up get_parent_scope() comparing each scope with the declared class's get_scope()")
    fs = [f for f in db.functions if f.file.endswith("cppBison.cxx") and f.name.endswith("yyparse")]
    if not fs:
        ctx.broken("R15.20: generated parser not found")
    f = fs[0]
    n = n_all = 0
    for c in f.walk():
        if c.get("k") != "call" or callee_short(c) != "add_declaration" or not c.get("a"):
            continue
        n_all += 1
        a = strip_casts(peel(c["a"][0]))
        if not (a is not None and a.get("k") == "mem" and (a.get("n") or "").endswith("::decl") and "yyvsp" in show(a)):
            continue
        n += 1
        ok = False
        why = "no guarding flag found"
        # candidate flags: local bools set true inside a parent-scope walk
        for lp in f.walk():
            if lp.get("k") not in ("for", "while", "do"):
                continue
            sub = list(walk(lp))
            if not any(y.get("k") == "call" and callee_short(y) == "get_parent_scope" for y in sub):
                continue
            cmp_ok = any(G.cmp_atom(y) and G.cmp_atom(y)[0] == "==" and any((strip_casts(peel(z)) or {}).get("k") == "call" and callee_short(strip_casts(peel(z))) == "get_scope" for z in G.cmp_atom(y)[1:] if z is not None)
                         for y in sub if y.get("k") == "bin")
            if not cmp_ok:
                continue
            for y in sub:
                t = assigned_target(y)
                r = local_ref(t[0]) if t else None
                if r is not None and const_int(t[1]) == 1:
                    d = r["d"]
                    edges = G.edges_where(f, lambda atom, truth, d=d: (not truth) and (local_ref(atom) or {}).get("d") == d)
                    if edges and G.gated(f, c, edges):
                        ok = True
                        why = "behind `!%s`, which is set in a walk up the enclosing scopes" % r.get("n")
        ctx.ob("R15.20", "yyparse|add_declaration(%s)|not-an-enclosing-class" % _norm(show(a)), ok, "src/cppparser/cppBison.yxx (generated line %s)" % f.loc(c).split(":")[-1], why)
    ctx.floor("R15.20", "add_declaration calls in the generated parser", n_all, 25)
    ctx.floor("R15.20", "add_declaration calls handing over a value-stack declaration", n, 1)


def namespaces_do_not_contain_themselves(ctx):
    """R15.34: a namespace definition `namespace N {` reopens the namespace N if the name finds one.  The lookup goes
    through the enclosing scopes (and through aliases), so the scope it finds may be one the parser is inside of:
    `namespace A { namespace A { int q; } }` (valid C++) and `namespace A { namespace B = A; namespace B {} }`.  Making a
    CPPNamespace for such a scope and adding it to current_scope lists the namespace in itself, and CPPScope::write() /
    CPPNamespace::output() never end (F-C15ae).  In the generated parser, a `new CPPNamespace(name, <looked-up scope>)`
    that is written by its contents is therefore reached only after a walk from current_scope up get_parent_scope()
    that compares every scope with the looked-up one and drops it (sets it to nullptr) on equality.  An alias
    (`_alias_of` set in the same action) is written by name: CPPNamespace::output must keep testing _alias_of before
    it descends."""
    db = ctx.db
    ctx.rule("R15.34", "in the generated parser, `new CPPNamespace(name, S)` with S the result of find_scope() and no _alias_of is reached only through a loop that starts at current_scope, steps with get_parent_scope(), and sets S to nullptr where the two are equal; CPPNamespace::output descends into the scope only where _alias_of is null")
    fs = [f for f in db.functions if f.file.endswith("cppBison.cxx") and f.name.endswith("yyparse")]
    if not fs:
        ctx.broken("R15.34: generated parser not found")
        return
    yy = fs[0]
    n_sites = n_alias = 0
    for cs in yy.walk():
        if cs.get("k") != "case":
            continue
        sub = list(walk(cs.get("sub") or {}))
        for nw in sub:
            if nw.get("k") != "new" or nw.get("ty") != "CPPNamespace":
                continue
            ct = [y for y in walk(nw) if y.get("k") == "ctor" and len(y.get("a") or []) >= 2]
            if not ct:
                continue
            r = local_ref(ct[0]["a"][1])
            if r is None:
                continue
            d = r["d"]
            init = None
            for z in sub:
                if z.get("k") == "decls":
                    for dd in z["d"]:
                        if dd.get("d") == d:
                            init = strip_casts(peel(dd.get("init"))) if dd.get("init") is not None else None
            if not (init is not None and init.get("k") == "call" and callee_short(init) == "find_scope"):
                continue
            site = "src/cppparser/cppBison.yxx (case %s, generated line %s)" % (cs.get("v"), yy.loc(nw).split(":")[-1])
            # the local that holds the new namespace; is its _alias_of assigned in this action?
            holder = None
            for z in sub:
                if z.get("k") == "decls":
                    for dd in z["d"]:
                        if dd.get("init") is not None and any(y is nw or y.get("i") == nw.get("i") for y in walk(dd["init"])):
                            holder = dd["d"]
            alias = False
            for z in sub:
                t = assigned_target(z)
                if t:
                    tt = strip_casts(peel(t[0]))
                    if tt is not None and tt.get("k") == "mem" and (tt.get("n") or "").endswith("CPPNamespace::_alias_of") and \
                       (local_ref(tt.get("b")) or {}).get("d") == holder and holder is not None:
                        alias = True
            if alias:
                n_alias += 1
                ctx.ob("R15.34", "case%s|%s|alias" % (cs.get("v"), r.get("n")), True, site, "an alias: _alias_of is set in the same action, the declaration is written by name")
                continue
            n_sites += 1
            ok, why = False, "no walk up the enclosing scopes compares them with `%s`" % r.get("n")
            for lp in sub:
                if lp.get("k") not in ("for", "while"):
                    continue
                if lp.get("i", 0) > nw.get("i", 0):
                    continue
                lsub = list(walk(lp))
                # the walker: a local that starts at current_scope and is stepped by get_parent_scope() of itself
                walker = None
                for z in lsub:
                    if z.get("k") == "decls":
                        for dd in z["d"]:
                            i0 = strip_casts(peel(dd.get("init"))) if dd.get("init") is not None else None
                            if i0 is not None and i0.get("k") == "ref" and i0.get("n") == "current_scope":
                                walker = dd["d"]
                if walker is None:
                    # declared just before the loop
                    for z in sub:
                        if z.get("k") == "decls" and z.get("i", 0) < lp.get("i", 0):
                            for dd in z["d"]:
                                i0 = strip_casts(peel(dd.get("init"))) if dd.get("init") is not None else None
                                if i0 is not None and i0.get("k") == "ref" and i0.get("n") == "current_scope" and \
                                   any((local_ref(y) or {}).get("d") == dd["d"] for y in lsub):
                                    walker = dd["d"]
                if walker is None:
                    why = "the walk does not start at current_scope (the scope found may be current_scope itself)"
                    continue
                steps = []
                others = []
                for z in lsub:
                    t = assigned_target(z)
                    if t and (local_ref(t[0]) or {}).get("d") == walker:
                        v = strip_casts(peel(t[1]))
                        if v is not None and v.get("k") == "call" and callee_short(v) == "get_parent_scope" and (local_ref(v.get("this")) or {}).get("d") == walker:
                            steps.append(z)
                        else:
                            others.append(z)
                if not steps or others:
                    why = "the walker is not stepped by get_parent_scope() of itself alone"
                    continue
                # the comparison and what happens on equality
                hit = False
                for y in lsub:
                    if y.get("k") != "if":
                        continue
                    ca = G.cmp_atom(y.get("c")) if (y.get("c") or {}).get("k") == "bin" else None
                    if not (ca and ca[0] == "=="):
                        continue
                    ds = {(local_ref(z) or {}).get("d") for z in ca[1:] if z is not None}
                    if ds != {walker, d}:
                        continue
                    for z in walk(y.get("then") or {}):
                        t = assigned_target(z)
                        if t and (local_ref(t[0]) or {}).get("d") == d and (strip_casts(peel(t[1])) or {}).get("k") == "nullp":
                            hit = True
                if not hit:
                    why = "the walk does not set `%s` to nullptr where it equals an enclosing scope" % r.get("n")
                    continue
                # the loop may stop early only on the walker or the scope being null, and nothing leaves it otherwise
                atoms = []
                def conj(c):
                    c = strip_casts(peel(c)) if c is not None else None
                    if c is not None and c.get("k") == "bin" and c.get("op") == "&&":
                        conj(c.get("x")); conj(c.get("y"))
                    elif c is not None:
                        atoms.append(c)
                conj(lp.get("c"))
                cond_ok = bool(atoms)
                for a in atoms:
                    ca = G.cmp_atom(a) if a.get("k") == "bin" else None
                    if ca and ca[0] == "!=":
                        ds = [(local_ref(z) or {}).get("d") for z in ca[1:] if z is not None and (strip_casts(peel(z)) or {}).get("k") != "nullp"]
                        nl = [z for z in ca[1:] if z is not None and (strip_casts(peel(z)) or {}).get("k") == "nullp"]
                        if nl and len(ds) == 1 and ds[0] in (walker, d):
                            continue
                    if (local_ref(a) or {}).get("d") in (walker, d):
                        continue
                    cond_ok = False
                leaves = [z for z in walk(lp.get("body") or {}) if z.get("k") in ("break", "ret", "goto", "continue")]
                if not cond_ok or leaves:
                    why = "the walk can stop before the top for a reason other than `%s` or the walker being null" % r.get("n")
                    continue
                ok, why = True, "a walk from current_scope up get_parent_scope() sets `%s` to nullptr where it is an enclosing scope" % r.get("n")
                break
            ctx.ob("R15.34", "case%s|%s|not-an-enclosing-namespace" % (cs.get("v"), r.get("n")), ok, site, why)
    ctx.floor("R15.34", "namespace definitions that reopen a looked-up scope", n_sites, 1)
    ctx.floor("R15.34", "namespace aliases", n_alias, 1)
    # CPPNamespace::output descends only where _alias_of is null
    outs = [f for f in db.functions if f.name == "CPPNamespace::output" and f.body]
    if not outs:
        ctx.broken("R15.34: CPPNamespace::output not found")
        return
    f = outs[0]
    ws = [c for c in f.walk() if c.get("k") == "call" and callee_short(c) == "write" and (c.get("f") or "").startswith("CPPScope::")]
    def alias_null(atom, truth):
        ca = G.cmp_atom(atom) if atom.get("k") == "bin" else None
        if not ca:
            return False
        m = [z for z in ca[1:] if z is not None and (strip_casts(peel(z)) or {}).get("k") == "mem" and (strip_casts(peel(z)).get("n") or "").endswith("::_alias_of")]
        nl = [z for z in ca[1:] if z is not None and (strip_casts(peel(z)) or {}).get("k") == "nullp"]
        if not (m and nl):
            return False
        return (ca[0] == "==" and truth) or (ca[0] == "!=" and not truth)
    e = G.edges_where(f, alias_null)
    ok = bool(ws) and bool(e) and all(G.gated(f, c, e) for c in ws)
    ctx.ob("R15.34", "CPPNamespace::output|descends-only-without-alias", ok, f.loc(ws[0]) if ws else f.loc(), "_scope->write() is reached only where _alias_of is null")


STRUCT_TYPE_EXEMPT = {
    "CPPStructType::instantiate": "the scope is the result of _scope->instantiate() of a class's own scope: CPPScope::instantiate returns this scope or a "
                                  "copy made by copy_substitute_decl, both of which carry the struct type (read and confirmed)",
}


def scope_struct_type_is_nullable(ctx):
    """R15.21: CPPScope::get_struct_type() is null for every scope that is not a class body (namespaces, the global scope,
    function and template scopes).  Its result may be dereferenced only behind a test that the same expression is not
    null.  (F-C15q: `namespace Foo { struct Foo {}; } Foo::Foo f;` - valid C++ - SIGSEGV in find_symbol.)"""
    db = ctx.db
    ctx.rule("R15.21", "X->get_struct_type()->... is reached only behind `X->get_struct_type() != nullptr` (same X), except where X provably is a class's scope")
    n = 0
    for f in db.functions:
        if "bison" in f.file or not any(d in f.file for d in ("/cppparser/", "/interrogate/")):
            continue
        for x in f.walk():
            b = None
            if x.get("k") == "mem" and x.get("arrow"):
                b = strip_casts(peel(x.get("b")))
            elif x.get("k") == "call" and "this" in x and x.get("arrow", True):
                b = strip_casts(peel(x["this"]))
            if not (b is not None and b.get("k") == "call" and b.get("f") == "CPPScope::get_struct_type"):
                continue
            n += 1
            key = _norm(show(b))
            inst = "%s|%s" % (f.name, _norm(show(x))[:60])
            if f.name in STRUCT_TYPE_EXEMPT:
                ctx.ob("R15.21", inst + "|exception", True, f.loc(x), "reasoned exception: " + STRUCT_TYPE_EXEMPT[f.name])
                continue

            def nonnull(atom, truth, key=key):
                c = G.cmp_atom(atom)
                if c:
                    op, u, v = c
                    if not truth:
                        op = G.NEG[op]
                    for p, q in ((u, v), (v, u)):
                        pp = strip_casts(peel(p)) if p is not None else None
                        if pp is not None and pp.get("k") == "call" and pp.get("f") == "CPPScope::get_struct_type" and _norm(show(pp)) == key \
                                and q is not None and (strip_casts(q) or {}).get("k") == "nullp":
                            return op == "!="
                    return False
                a = strip_casts(peel(atom)) if atom is not None else None
                return a is not None and a.get("k") == "call" and a.get("f") == "CPPScope::get_struct_type" and _norm(show(a)) == key and truth
            ok = G.gated(f, x, G.edges_where(f, nonnull))
            ctx.ob("R15.21", inst, ok, f.loc(x), "`%s` is %sbehind a test that %s is not null" % (show(x)[:60], "" if ok else "NOT ", key))
    ctx.floor("R15.21", "dereferences of a get_struct_type() result", n, 3)


def typedefs_peeled_before_taking_apart(ctx):
    """R15.22: TypeManager::is_pointer_to_simple() answers through typedef layers.  The generator branch it selects then
    takes the type apart with as_array_type()/as_pointer_type() and finally dereferences as_simple_type(); if it has not
    peeled the typedefs first, a typedef-named array (`typedef int I3[3]; extern I3 arr;`) matches neither, the simple type
    is null and the generator dies.  (F-C15r, valid C++.)"""
    db = ctx.db
    ctx.rule("R15.22", "in write_function_instance, the local taken from unwrap_const_reference() is asked as_array_type()/as_pointer_type() only after a loop that replaces it by ->_type while it is a typedef")
    f = db.fn("InterfaceMakerPythonNative::write_function_instance")
    n = 0
    for y in f.walk():
        if y.get("k") != "decls":
            continue
        for d in y["d"]:
            init = strip_casts(peel(d.get("init"))) if d.get("init") is not None else None
            if init is None or init.get("k") != "call" or callee_short(init) != "unwrap_const_reference":
                continue
            v = d["d"]
            asks = [c for c in f.walk() if c.get("k") == "call" and callee_short(c) in ("as_array_type", "as_pointer_type") and (local_ref(c.get("this")) or {}).get("d") == v]
            if not asks:
                continue
            peels = []
            for lp in f.walk():
                if lp.get("k") not in ("while", "for"):
                    continue
                cond_ok = any(z.get("k") == "ref" and (z.get("n") or "").endswith("ST_typedef") for z in walk(lp.get("c") or {})) \
                    and any(z.get("k") == "call" and callee_short(z) == "get_subtype" and (local_ref(z.get("this")) or {}).get("d") == v for z in walk(lp.get("c") or {}))
                body_ok = any(assigned_target(z) and (local_ref(assigned_target(z)[0]) or {}).get("d") == v for z in walk(lp.get("body") or {}))
                if cond_ok and body_ok:
                    for z in walk(lp.get("c") or {}):
                        loc = f.cfg.locate(z)
                        if loc:
                            peels.append(loc[0])
                            break
            dom = f.cfg.dominators()
            for c in asks:
                n += 1
                lc = f.cfg.locate(c)
                ok = lc is not None and any(pb in dom.get(lc[0], ()) for pb in peels)
                ctx.ob("R15.22", "write_function_instance|%s.%s()|after-typedef-peel" % (d["n"], callee_short(c)), ok, f.loc(c),
                       "`%s` is %sasked after the typedef layers were peeled" % (show(c), "" if ok else "NOT "))
    ctx.floor("R15.22", "array/pointer questions to an unwrapped parameter type", n, 2)


def error_branches_of_actions_leave_a_value(ctx):
    """R15.23: a grammar action that finds its result null and calls yyerror() is on an INPUT error path (the parse goes
    on, only the error count is raised): the value it leaves in $$ is used by the enclosing productions.  Unless the
    action states the belief that this cannot happen (`assert($$ != nullptr)` - the TYPENAME_IDENTIFIER arms, whose token
    kind already proves the lookup succeeds), the branch must give $$ a value.  (F-C15t: `decltype(a) a;`.)"""
    import re
    db = ctx.db
    ctx.rule("R15.23", "a grammar action with `if ($$ == nullptr) { ... yyerror ... }` and no assert of non-nullness assigns $$ inside that branch")
    g = GR.Grammar(db.meta["grammar"])
    n = 0
    for nt, alts in g.rules.items():
        for a in alts:
            act = a.action or ""
            for m in re.finditer(r"if\s*\(\s*(?:\$\$\s*==\s*(?:nullptr|NULL)|!\s*\$\$)\s*\)\s*\{", act):
                depth, j = 1, m.end()
                while j < len(act) and depth:
                    depth += {"{": 1, "}": -1}.get(act[j], 0)
                    j += 1
                body = act[m.end():j - 1]
                if "yyerror" not in body:
                    continue
                n += 1
                syms = [x for x in a.syms if x != "@action"]
                believed = re.search(r"assert\s*\(\s*\$\$\s*!=\s*(?:nullptr|NULL)\s*\)", act[j:]) is not None
                ok = believed or re.search(r"\$\$\s*=[^=]", body) is not None
                ctx.ob("R15.23", "%s|%s|error-branch-leaves-a-value" % (nt, "_".join(syms)[:50]), ok, "src/cppparser/cppBison.yxx:%d" % a.line,
                       "asserted impossible" if believed else ("assigns $$ after the error" if ok else "reports the error and leaves $$ null"))
    ctx.floor("R15.23", "null-result error branches in grammar actions", n, 8)


DERIVATION_WRITERS = {
    "CPPStructType::append_derivation": "the grammar's entry point (judged below)",
    "CPPStructType::CPPStructType": "copy constructor: copies an existing class's list",
    "CPPStructType::operator=": "copies an existing class's list",
    "CPPStructType::substitute_decl": "template instantiation: the bases of an existing class with the template arguments put in (NOT judged: a cycle "
                                      "through instantiation is outside this rule)",
    "CPPScope::copy_substitute_decl": "template instantiation, as above",
}


def class_hierarchy_is_acyclic(ctx):
    """R15.24: CPPScope::find_symbol/find_type, CPPStructType::check_virtual/is_base_of/..., the builder and the makers
    (get_valid_child_classes, DoesInheritFromIsClass, ...) all walk `_derivation` recursively with no visited set - and
    follow forward declarations BY NAME (resolve_type).  They end only if no base clause leads back to the class it
    belongs to.  The grammar is the one place where a name becomes a base, so it is there that the cycle is refused:
    (F-C15u: `struct A : A {};`, `struct B; struct A : B {}; struct B : A {};` SIGSEGV.)"""
    db = ctx.db
    ctx.rule("R15.24", "only the frozen writers touch CPPStructType::_derivation; append_derivation is called only from the generated parser; the value of "
                       "class_derivation_name, when it comes from a name lookup, is assigned only where the cycle predicate answered false (or the value was "
                       "nulled); the predicate compares with current_struct, re-resolves names, peels typedefs, recurses over _derivation and cannot cycle")
    # (a) writers of _derivation
    n_w = 0
    for f in db.functions:
        if not any(d in f.file for d in ("/cppparser/", "/interrogate", "cppBison")):
            continue
        for c in f.walk():
            w = None
            if c.get("k") == "call" and callee_short(c) in ("push_back", "emplace_back", "insert", "erase", "clear", "resize", "pop_back", "swap", "assign") and "this" in c:
                if (field_of(strip_casts(peel(c["this"]))) or "") == "CPPStructType::_derivation":
                    w = c
            t = assigned_target(c)
            if t:
                tgt = strip_casts(peel(t[0]))
                for y in walk(tgt):
                    if y.get("k") == "mem" and y.get("n") == "CPPStructType::_derivation":
                        w = c
            if w is not None:
                n_w += 1
                ctx.ob("R15.24", "%s|writes-_derivation" % f.name, f.name in DERIVATION_WRITERS, f.loc(w),
                       DERIVATION_WRITERS.get(f.name, "a writer of the base-class list that is not in the frozen table"))
        for ini in f.d.get("inits", []):
            if ini.get("m") == "CPPStructType::_derivation" and ini.get("written"):
                n_w += 1
                ctx.ob("R15.24", "%s|writes-_derivation" % f.name, f.name in DERIVATION_WRITERS, f.loc(),
                       DERIVATION_WRITERS.get(f.name, "a writer of the base-class list that is not in the frozen table"))
    ctx.floor("R15.24", "writers of CPPStructType::_derivation", n_w, 4)
    # (b) callers of append_derivation
    fs = [f for f in db.functions if f.file.endswith("cppBison.cxx") and f.name.endswith("yyparse")]
    if not fs:
        ctx.broken("R15.24: generated parser not found")
        return
    yy = fs[0]
    n_c = 0
    for f in db.functions:
        for c in f.calls("CPPStructType::append_derivation"):
            n_c += 1
            a = strip_casts(peel(c["a"][0])) if c.get("a") else None
            from_stack = a is not None and a.get("k") == "mem" and (a.get("n") or "").endswith("::type") and "yyvsp" in show(a)
            ctx.ob("R15.24", "%s|append_derivation(%s)|value-of-class_derivation_name" % (f.name, _norm(show(a)) if a else "?"), f is yy and from_stack,
                   f.loc(c), "the base handed over is the value of a class_derivation_name on the parser's stack" if (f is yy and from_stack)
                   else "append_derivation() called with something that did not pass through the grammar's cycle test")
    ctx.floor("R15.24", "calls of append_derivation", n_c, 11)
    # (c) the cycle predicate(s): functions of the parser that compare with current_struct and read _derivation
    preds = []
    for f in db.functions:
        if not f.file.endswith("cppBison.cxx") or f is yy:
            continue
        cmp_node = None
        for y in f.walk():
            ca = G.cmp_atom(y) if y.get("k") == "bin" else None
            if ca and ca[0] == "==" and any((strip_casts(peel(z)) or {}).get("k") == "ref" and strip_casts(peel(z)).get("n") == "current_struct" for z in ca[1:] if z is not None):
                cmp_node = y
        reads = any(y.get("k") == "mem" and y.get("n") == "CPPStructType::_derivation" for y in f.walk())
        if cmp_node is not None and reads:
            preds.append((f, cmp_node))
    ctx.floor("R15.24", "cycle predicates in the parser", len(preds), 1)
    for f, cmp_node in preds:
        short = f.name.split("::")[-1]
        # returns true exactly on the == edge
        eq = G.edges_where(f, lambda atom, truth: truth and atom is cmp_node or (G.cmp_atom(atom) is not None and atom.get("i") == cmp_node.get("i") and truth))
        rt = [r for r in f.walk() if r.get("k") == "ret" and const_int(r.get("e")) == 1]
        ok = bool(eq) and any(G.gated(f, r, eq) for r in rt)
        ctx.ob("R15.24", "%s|true-on-current_struct" % short, ok, f.loc(cmp_node), "returns true where the type IS the class being defined")
        rec = [c for c in f.walk() if c.get("k") == "call" and c.get("f") == f.name]
        rec_base = [c for c in rec if c.get("a") and any(y.get("k") == "mem" and (y.get("n") or "").endswith("Base::_base") for y in walk(c["a"][0]))]
        in_loop = [c for c in rec_base if any(lp.get("k") in ("for", "forrange") and any(y.get("k") == "mem" and y.get("n") == "CPPStructType::_derivation" for y in walk(lp)) for lp in enclosing_loops(f, c))]
        prop = False
        for c in in_loop:
            e = G.edges_where(f, lambda atom, truth, c=c: truth and (strip_casts(peel(atom)) or {}).get("i") == c.get("i"))
            prop = prop or (bool(e) and any(G.gated(f, r, e) for r in rt))
        ctx.ob("R15.24", "%s|recurses-over-bases" % short, bool(in_loop) and prop, f.loc(in_loop[0]) if in_loop else f.loc(),
               "asks the same question of every base of a class and answers true when one of them does")
        res = [c for c in f.walk() if c.get("k") == "call" and callee_short(c) == "resolve_type"]
        ctx.ob("R15.24", "%s|looks-names-up-again" % short, bool(res), f.loc(res[0]) if res else f.loc(),
               "forward declarations and names unknown at the time are resolved again (they may name the class being defined)")
        tdp = [y for y in f.walk() if y.get("k") == "mem" and y.get("n") == "CPPTypedefType::_type"]
        ctx.ob("R15.24", "%s|peels-typedefs" % short, bool(tdp), f.loc(tdp[0]) if tdp else f.loc(), "a typedef of the class is the class")
        # cannot cycle itself: recursion and the loop body sit behind insert(...).second of a visited set
        ins = G.edges_where(f, lambda atom, truth: truth and (strip_casts(peel(atom)) or {}).get("k") == "mem" and (strip_casts(peel(atom)).get("n") or "").endswith("pair::second")
                            and any(y.get("k") == "call" and callee_short(y) == "insert" for y in walk(strip_casts(peel(atom)))))
        ok = bool(ins) and all(G.gated(f, c, ins) for c in rec + res)
        ctx.ob("R15.24", "%s|visited-set" % short, ok, f.loc(), "every resolve step and every recursive call is behind `visited.insert(type).second`")
    pred_names = {f.name for f, _ in preds}
    # (d) the actions of class_derivation_name
    cases = {k: v for k, v in db.meta.get("bison_cases", {}).items() if v[0] == "class_derivation_name"}
    if not cases:
        ctx.broken("R15.24: no class_derivation_name actions in the generated parser")
        return
    n_named = 0
    for cs in yy.walk():
        if cs.get("k") != "case" or cs.get("v") not in cases:
            continue
        rhs = cases[cs["v"]][1]
        sub = list(walk(cs.get("sub") or {}))
        named = any(y.get("k") == "call" and callee_short(y) in ("find_type", "find_symbol", "find_template", "find_scope") for y in sub) or \
            any(y.get("k") == "new" and y.get("ty") == "CPPTBDType" for y in sub)
        if not named:
            ctx.ob("R15.24", "class_derivation_name:%s|not-from-a-name" % rhs.replace(" ", "_"), True, "src/cppparser/cppBison.yxx (case %d)" % cs["v"],
                   "the value is not the result of a name lookup (a template parameter pack)")
            continue
        n_named += 1
        outs = []
        for y in sub:
            t = assigned_target(y)
            if t and "yyval" in show(t[0]) and (field_of(strip_casts(peel(t[0]))) or "").endswith("::type"):
                outs.append((y, t[1]))
        ok = bool(outs)
        why = "no assignment to $$ found"
        for y, val in outs:
            v = strip_casts(peel(val))
            if v is not None and v.get("k") == "nullp":
                continue
            r = local_ref(v)
            if r is None:
                ok, why = False, "$$ is assigned a looked-up type directly, with no cycle test in between"
                break
            d = r["d"]
            def is_pred_call(n, d=d):
                n = strip_casts(peel(n)) if n is not None else None
                return n is not None and n.get("k") == "call" and n.get("f") in pred_names and n.get("a") and (local_ref(n["a"][0]) or {}).get("d") == d
            # the answer may be kept in a local that is initialised with the call and never assigned again
            kept = set()
            for z in sub:
                if z.get("k") == "decls":
                    for dd in z["d"]:
                        if dd.get("ct") == "bool" and is_pred_call(dd.get("init")) and \
                           not any((local_ref((assigned_target(w) or (None,))[0]) or {}).get("d") == dd["d"] for w in sub):
                            kept.add(dd["d"])
            false_edges = G.edges_where(yy, lambda atom, truth: (not truth) and (is_pred_call(atom) or (local_ref(atom) or {}).get("d") in kept))
            nulled = set()
            for z in sub:
                tz = assigned_target(z)
                if tz and (local_ref(tz[0]) or {}).get("d") == d and (strip_casts(peel(tz[1])) or {}).get("k") == "nullp":
                    lz = yy.cfg.locate(z)
                    if lz is not None:
                        nulled.add(lz)
            la = yy.cfg.locate(y)
            if la is None or not false_edges:
                ok, why = False, "no call of the cycle predicate on `%s` decides this assignment" % r.get("n")
                break
            cut_blocks = {b for b, i in nulled if not (b == la[0] and i > la[1])}
            if la[0] in cut_blocks:
                continue
            if la[0] in yy.cfg.reachable(cut_edges=false_edges, cut_blocks=cut_blocks):
                ok, why = False, "`$$ = %s` can be reached with the predicate true and `%s` not nulled" % (r.get("n"), r.get("n"))
                break
            why = "`$$ = %s` only where %s(%s, ...) was false, or %s was set to nullptr" % (r.get("n"), sorted(pred_names)[0].split("::")[-1], r.get("n"), r.get("n"))
        ctx.ob("R15.24", "class_derivation_name:%s|cycle-refused" % rhs.replace(" ", "_"), ok, "src/cppparser/cppBison.yxx (case %d)" % cs["v"], why)
    ctx.floor("R15.24", "class_derivation_name actions that take their value from a name", n_named, 2)


NULLABLE_LOOKUPS = {
    "CPPIdentifier::find_symbol", "CPPIdentifier::find_type", "CPPIdentifier::find_template", "CPPIdentifier::find_scope", "CPPIdentifier::get_scope",
    "CPPScope::find_symbol", "CPPScope::find_type", "CPPScope::find_template", "CPPScope::find_scope",
    "CPPDeclaration::get_template_scope",
    "CPPExpression::determine_type",
}
# a predicate of the receiver that is, by its one-line body, `<the nullable member> != nullptr`
NONNULL_WITNESS = {"CPPDeclaration::get_template_scope": "is_template"}


def _is_nullable_call(n):
    """A call whose answer input can make null: the lookups, and the struct type of a BASE class (a base may be only
    forward-declared, or depend on a template parameter)."""
    if n is None or n.get("k") != "call":
        return False
    if n.get("f") in NULLABLE_LOOKUPS:
        return True
    if callee_short(n) == "as_struct_type" and "this" in n:
        t = strip_casts(peel(n["this"]))
        return t is not None and t.get("k") == "mem" and (t.get("n") or "").endswith("Base::_base")
    return False


BASE_STRUCT_EXEMPT = {
    "InterrogateBuilder::is_inherited_published": "only called for a method marked SC_inherited_virtual by get_virtual_funcs(), which found the overridden "
                                                  "function through `base->get_virtual_funcs()` of a non-null struct base; with _derivation.size() == 1 that base is [0] "
                                                  "(premise checked: every call is behind SC_inherited_virtual and size() == 1)",
}


def _deref_base(x):
    if x.get("k") == "mem" and x.get("arrow"):
        return strip_casts(peel(x.get("b")))
    if x.get("k") == "call" and "this" in x and x.get("arrow", True):
        return strip_casts(peel(x["this"]))
    return None


def lookup_results_are_nullable(ctx):
    """R15.25: every name lookup of the parser (find_symbol/find_type/find_template/find_scope/get_scope) answers nullptr
    for a name that names nothing, and get_template_scope() is null for everything that is not a template - all of which
    input decides.  The answer may be dereferenced - in the same function, or by a callee that dereferences the
    parameter it arrives in without a test of its own - only behind evidence that it is not null: a test of the same
    local / the same call expression, or (for get_template_scope) `is_template()` of the same receiver.  Asserts are not
    evidence: the analysis is done with NDEBUG, as the tools are built.
    The same holds for the struct type of a BASE class: `struct Fwd; struct S : Fwd {};` has a base that is no struct type
    (F-C15y: is_standard_layout()).
    (F-C15v: `Outer<int>::In<char>` - member template of an instantiated class, no template scope - SIGSEGV in
    nested_parse_template_instantiation; F-C15w: find_type() of a templated name that names nothing.)"""
    db = ctx.db
    ctx.rule("R15.25", "a result of find_symbol/find_type/find_template/find_scope/get_scope/get_template_scope, or the as_struct_type() of a base class, is dereferenced (directly, through a once-assigned local, or by the callee it is passed to) only behind a non-null test of the same thing")
    # the witness predicates are what the table says
    for acc, wit in NONNULL_WITNESS.items():
        cls = acc.split("::")[0]
        ws = [g for g in db.functions if g.name == "%s::%s" % (cls, wit)]
        ok = False
        for g in ws:
            rets = [r for r in g.walk() if r.get("k") == "ret"]
            if len(rets) == 1:
                ca = G.cmp_atom(rets[0].get("e"))
                ok = bool(ca) and ca[0] == "!=" and any((field_of(strip_casts(peel(z))) or "").startswith(cls + "::_") for z in ca[1:] if z is not None) and \
                    any((strip_casts(peel(z)) or {}).get("k") == "nullp" for z in ca[1:] if z is not None)
        ctx.ob("R15.25", "%s::%s|is-the-non-null-test" % (cls, wit), ok, ws[0].loc() if ws else "src", "%s() returns `<member> != nullptr`" % wit)
    byname = {}
    for g in db.functions:
        byname.setdefault(g.name, []).append(g)

    def param_deref_unguarded(g, idx):
        ps = g.params or []
        if idx >= len(ps):
            return []
        pd = ps[idx].get("d")
        e = G.edges_where(g, G.local_is_null(pd, null=False)) + G.edges_where(g, G.local_true(pd))
        return [x for x in g.walk() if (local_ref(_deref_base(x)) or {}).get("d") == pd and _deref_base(x) is not None and not G.gated(g, x, e)]
    n = n_arg = 0
    for f in db.functions:
        if "bison" in f.file or not any(d in f.file for d in ("/cppparser/", "/interrogate/")):
            continue
        defs, cnt, nulls = {}, {}, {}
        for y in f.walk():
            if y.get("k") == "decls":
                for dd in y["d"]:
                    i0 = strip_casts(peel(dd.get("init"))) if dd.get("init") is not None else None
                    if i0 is not None and i0.get("k") == "nullp":
                        nulls[dd["d"]] = nulls.get(dd["d"], 0) + 1
                        continue
                    cnt[dd["d"]] = cnt.get(dd["d"], 0) + 1
                    if _is_nullable_call(i0):
                        defs[dd["d"]] = i0
            t = assigned_target(y)
            if t:
                r = local_ref(t[0])
                if r is not None:
                    v = strip_casts(peel(t[1]))
                    if v is not None and v.get("k") == "nullp":
                        nulls[r["d"]] = nulls.get(r["d"], 0) + 1
                        continue
                    cnt[r["d"]] = cnt.get(r["d"], 0) + 1
                    if _is_nullable_call(v):
                        defs[r["d"]] = v
        # a local whose only non-null definition is one nullable call (it may also be set to nullptr) holds that call's answer
        single = {d: v for d, v in defs.items() if cnt.get(d, 0) == 1}

        def evidence(call, local_d=None):
            key = _norm(show(call))
            recv = _norm(show(call.get("this"))) if call.get("this") is not None else "this"
            wit = NONNULL_WITNESS.get(call.get("f"))

            def holds(atom, truth):
                a = strip_casts(peel(atom)) if atom is not None else None
                c = G.cmp_atom(atom)
                if c:
                    op, u, v = c
                    op = op if truth else G.NEG[op]
                    for p_, q_ in ((u, v), (v, u)):
                        pp = strip_casts(peel(p_)) if p_ is not None else None
                        if pp is not None and q_ is not None and (strip_casts(peel(q_)) or {}).get("k") == "nullp":
                            if (pp.get("k") == "call" and _norm(show(pp)) == key) or (local_d is not None and (local_ref(pp) or {}).get("d") == local_d):
                                return op == "!="
                    return False
                if a is None:
                    return False
                if a.get("k") == "call" and _norm(show(a)) == key:
                    return truth
                if local_d is not None and (local_ref(a) or {}).get("d") == local_d:
                    return truth
                if wit and a.get("k") == "call" and callee_short(a) == wit and (_norm(show(a.get("this"))) if a.get("this") is not None else "this") == recv:
                    return truth
                return False
            return G.edges_where(f, holds)
        for x in f.walk():
            b = _deref_base(x)
            if b is None:
                continue
            call, ld = None, None
            if _is_nullable_call(b):
                call = b
            else:
                r = local_ref(b)
                if r is not None and r.get("d") in single:
                    call, ld = single[r["d"]], r["d"]
            if call is None:
                continue
            n += 1
            if f.name in BASE_STRUCT_EXEMPT and callee_short(call) == "as_struct_type":
                callers = [(g, c) for g in db.functions for c in g.calls(f.name)]
                prem = bool(callers)
                for g, c in callers:
                    e1 = G.edges_where(g, lambda atom, truth: truth and "SC_inherited_virtual" in show(atom) and "&" in show(atom))
                    e2 = G.edges_where(g, lambda atom, truth: (G.cmp_atom(atom) or (None,))[0] == ("==" if truth else "!=") and "_derivation.size()" in show(atom).replace(" ", "") and
                                       any(const_int(z) == 1 for z in G.cmp_atom(atom)[1:] if z is not None))
                    prem = prem and bool(e1) and G.gated(g, c, e1) and bool(e2) and G.gated(g, c, e2)
                ctx.ob("R15.25", "%s|%s|exception" % (f.name, _norm(show(x))[:60]), prem, f.loc(x), "reasoned exception: " + BASE_STRUCT_EXEMPT[f.name])
                continue
            ok = G.gated(f, x, evidence(call, ld))
            ctx.ob("R15.25", "%s|%s|deref-behind-non-null" % (f.name, _norm(show(x))[:60]), ok, f.loc(x),
                   "`%s` is %sbehind evidence that %s is not null" % (show(x)[:50], "" if ok else "NOT ", show(call)[:40]))
        for c in f.walk():
            if c.get("k") != "call":
                continue
            for i, a in enumerate(c.get("a") or []):
                a0 = strip_casts(peel(a))
                call, ld = None, None
                if _is_nullable_call(a0):
                    call = a0
                else:
                    r = local_ref(a0) if a0 is not None else None
                    if r is not None and r.get("d") in single:
                        call, ld = single[r["d"]], r["d"]
                if call is None:
                    continue
                callees = byname.get(c.get("f"), [])
                if not callees or not any(param_deref_unguarded(g, i) for g in callees):
                    continue
                n_arg += 1
                ok = G.gated(f, c, evidence(call, ld))
                ctx.ob("R15.25", "%s|%s(#%d=%s)|callee-dereferences-it" % (f.name, callee_short(c), i, _norm(show(call))[:40]), ok, f.loc(c),
                       "%s() dereferences this parameter without a test of its own; the call is %sbehind evidence that %s is not null" % (callee_short(c), "" if ok else "NOT ", show(call)[:40]))
    ctx.floor("R15.25", "dereferences of lookup results", n, 50)
    ctx.floor("R15.25", "lookup results passed to a callee that dereferences them", n_arg, 2)


def _nospace(n):
    return show(n).replace(" ", "") if n is not None else ""


def parallel_subscripts_are_bounded(ctx):
    """R15.26: `for (i = 0; i < A.size(); ++i) ... B[i]` is in bounds only if something says that B is as long as A.  The
    code base has three ways of saying it, and one way of NOT saying it: an `nassertd(i < B.size()) break;`, which is
    `if (false) break;` in the tools as built.  Accepted: (i) the function compares A.size() with B.size() and leaves on
    the unequal side before the loop; (ii) B and A are the same member of an object and of its copy made in this
    function (`rep = new T(*this)`); (iii) an explicit `i < B.size()` on the way.
    (F-C15x: write_call_args() walked the caller's expression list and subscripted `_parameters` with it; `int
    __getbuffer__();` - fewer parameters than the slot supplies - called through a garbage pointer.)"""
    db = ctx.db
    ctx.rule("R15.26", "a counted loop bounded by A.size() subscripts a different container B with its counter only behind `A.size() == B.size()`, `i < B.size()`, or when one is the same member of a copy of the other's owner")
    n = 0
    for f in db.functions:
        if "bison" in f.file or not any(d in f.file for d in ("/interrogate/", "/cppparser/", "/interrogatedb/")):
            continue
        locs, copies = {}, {}
        for y in f.walk():
            if y.get("k") == "decls":
                for dd in y["d"]:
                    i0 = strip_casts(peel(dd.get("init"))) if dd.get("init") is not None else None
                    if i0 is not None and i0.get("k") == "call" and callee_short(i0) == "size" and "this" in i0:
                        locs[dd["d"]] = _nospace(i0["this"])
                    if i0 is not None and i0.get("k") == "new":
                        ct = strip_casts(peel(i0.get("e"))) if i0.get("e") is not None else None
                        if ct is not None and ct.get("k") == "ctor" and len(ct.get("a", [])) == 1 and "*this" in _nospace(ct["a"][0]):
                            copies[dd["d"]] = dd.get("n")

        def size_of(nd):
            nd = strip_casts(peel(nd)) if nd is not None else None
            if nd is None:
                return None
            if nd.get("k") == "call" and callee_short(nd) == "size" and "this" in nd:
                return _nospace(nd["this"])
            r = local_ref(nd)
            return locs.get(r["d"]) if r is not None else None
        for lp in f.walk():
            if lp.get("k") != "for" or lp.get("c") is None:
                continue
            c0 = strip_casts(peel(lp["c"]))
            conj = [c0["x"], c0["y"]] if c0 is not None and c0.get("k") == "bin" and c0.get("op") == "&&" else [lp["c"]]
            bounds = {}
            for cj in conj:
                ca = G.cmp_atom(cj)
                if ca and ca[0] in ("<", "!="):
                    rx = local_ref(ca[1])
                    sz = size_of(ca[2])
                    if rx is not None and sz:
                        bounds.setdefault(rx["d"], set()).add(sz)
            if not bounds:
                continue
            for x in walk(lp.get("body") or {}):
                base = idx = None
                if x.get("k") == "idx":
                    base, idx = x.get("b"), x.get("x")
                elif x.get("k") == "call" and callee_short(x) in ("operator[]", "at") and x.get("a"):
                    if "this" in x:
                        base, idx = x["this"], x["a"][0]
                    elif len(x["a"]) >= 2:
                        base, idx = x["a"][0], x["a"][1]
                ri = local_ref(idx) if idx is not None else None
                if base is None or ri is None or ri.get("d") not in bounds:
                    continue
                b = _nospace(base)
                if b in bounds[ri["d"]]:
                    continue
                if "basic_string" in (strip_casts(peel(base)) or {}).get("t", "") and False:
                    continue
                n += 1
                As = sorted(bounds[ri["d"]])
                why = None
                # (ii) same member of a copy
                for a in As:
                    for d, nm in copies.items():
                        if b == "%s->%s" % (nm, a) or a == "%s->%s" % (nm, b) or b == "this->" + a or a == "this->" + b:
                            why = "`%s` is a copy of *this made in this function: %s and %s have the same length" % (nm, a, b)
                # (i) sizes compared, (iii) explicit bound

                def holds(atom, truth, b=b, As=As, d=ri["d"]):
                    ca = G.cmp_atom(atom)
                    if not ca:
                        return False
                    op, u, v = ca
                    op = op if truth else G.NEG[op]
                    su, sv = size_of(u), size_of(v)
                    if su and sv and op == "==" and ((su == b and sv in As) or (sv == b and su in As)):
                        return True
                    if sv == b and (local_ref(u) or {}).get("d") == d and op == "<":
                        return True
                    if su == b and (local_ref(v) or {}).get("d") == d and op == ">":
                        return True
                    return False
                if why is None:
                    e = G.edges_where(f, holds)
                    if e and G.gated(f, x, e):
                        why = "behind a comparison that makes %s as long as %s (or bounds the counter by it)" % (b, As[0])
                ctx.ob("R15.26", "%s|%s[%s]|as-long-as-%s" % (f.name, b[:40], ri.get("n"), As[0][:30]), why is not None, f.loc(x),
                       why or "`%s[%s]` inside a loop bounded by %s.size(): nothing in this function says that %s is as long" % (b, ri.get("n"), As[0], b))
    ctx.floor("R15.26", "subscripts of a container other than the one that bounds the loop", n, 20)


def instance_substitution_registers_first(ctx):
    """R15.27: template instantiation copies a declaration graph with substitute_decl(subst, ...); the map `subst` (old ->
    new) is what keeps a node that is reachable twice - or reachable from itself - from being copied again.  An
    instance (variable, enumerator, function) reaches itself through its initializer: `enum { v = F<N-1>::v }` inside
    template F names F's own `v`.  CPPInstance::substitute_decl must therefore enter `this` in the map BEFORE it descends
    into _type and _initializer.  (F-C15z: the map entry was made after the descent; the factorial metaprogram -
    valid C++ - overflowed the stack.)"""
    db = ctx.db
    ctx.rule("R15.27", "in CPPInstance::substitute_decl every substitute_decl() call on _type / _initializer is reached only after `subst[this] = ...` (or subst.insert of this)")
    fs = [g for g in db.functions if g.name == "CPPInstance::substitute_decl"]
    if not fs:
        ctx.broken("R15.27: CPPInstance::substitute_decl not found")
        return
    f = fs[0]
    pd = (f.params or [{}])[0].get("d")
    regs = []
    for y in f.walk():
        if y.get("k") == "call" and callee_short(y) in ("operator[]", "insert", "emplace") and (("this" in y and (local_ref(y["this"]) or {}).get("d") == pd) or
                                                                                                 (y.get("a") and (local_ref(y["a"][0]) or {}).get("d") == pd)):
            if any(z.get("k") == "this" for a in y.get("a", []) for z in walk(a)):
                regs.append(y)
    desc = [c for c in f.walk() if c.get("k") == "call" and callee_short(c) == "substitute_decl" and "this" in c and
            (field_of(strip_casts(peel(c["this"]))) or "") in ("CPPInstance::_type", "CPPInstance::_initializer")]
    entry = f.body["s"][0] if f.body and f.body.get("s") else None
    for c in desc:
        fld = field_of(strip_casts(peel(c["this"]))).split("::")[-1]
        ok = bool(regs) and entry is not None and not _reaches_without(f, entry, regs, c)
        ctx.ob("R15.27", "CPPInstance::substitute_decl|%s->substitute_decl|after-registration" % fld, ok, f.loc(c),
               "the descent into %s happens %s this instance is in the substitution map" % (fld, "only after" if ok else "BEFORE"))
    ctx.floor("R15.27", "descents of CPPInstance::substitute_decl", len(desc), 2)


def _reaches_without(f, entry_stmt, via, sink):
    """Can `sink` be reached from the function's first statement without executing any of `via`?"""
    cfg = f.cfg
    first = None
    for y in walk(entry_stmt):
        if cfg.locate(y) is not None:
            first = y
            break
    if first is None:
        return True
    lf = cfg.locate(first)
    lk = cfg.locate(sink)
    if lk is None:
        return True
    if lf == lk:
        return True
    return G.reaches_avoiding(f, first, via, sink)


def using_walks_carry_a_visited_set(ctx):
    """R15.28: using-directives may legally form a cycle (`namespace B { using namespace A; } namespace A { using namespace
    B; }`), and every miss of a name lookup walks them: any undeclared-yet name - that is, every new declaration - is
    looked up and missed first.  Each CPPScope lookup that follows `_using` into the same lookup of another scope must
    therefore carry the set of scopes already visited and stop where `visited.insert(this).second` is false.
    (F-C15aa: the five walks had no such set; the mutual form above - valid C++ - overflowed the stack.)"""
    db = ctx.db
    ctx.rule("R15.28", "a CPPScope method that loops over _using and calls its own name on the element passes on a set parameter, and that call is reached only where `<set>.insert(this).second` was true")
    n = 0
    for f in db.methods_of("CPPScope"):
        short = f.name.split("::")[-1]
        for lp in f.walk():
            if lp.get("k") not in ("for", "forrange"):
                continue
            if not any(y.get("k") == "mem" and y.get("n") == "CPPScope::_using" for part in (lp.get("init"), lp.get("c"), lp.get("range")) if part for y in walk(part)):
                continue
            for c in walk(lp.get("body") or {}):
                if not (c.get("k") == "call" and callee_short(c) == short and "this" in c):
                    continue
                n += 1
                sets = [p_ for p_ in (f.params or []) if "set<" in (p_.get("t") or "") + (p_.get("ct") or "") or "Visited" in (p_.get("t") or "")]
                passed = [p_ for p_ in sets if any((local_ref(a) or {}).get("d") == p_["d"] for a in c.get("a", []))]
                ok, why = False, "the recursive %s() call through _using carries no visited set" % short
                for p_ in passed:
                    def fresh(atom, truth, d=p_["d"]):
                        a = strip_casts(peel(atom)) if atom is not None else None
                        if not (truth and a is not None and a.get("k") == "mem" and (a.get("n") or "").endswith("pair::second")):
                            return False
                        ins = strip_casts(peel(a.get("b")))
                        return ins is not None and ins.get("k") == "call" and callee_short(ins) == "insert" and (local_ref(ins.get("this")) or {}).get("d") == d and \
                            any(z.get("k") == "this" for z in walk(ins.get("a", [{}])[0]))
                    e = G.edges_where(f, fresh)
                    if e and G.gated(f, c, e):
                        ok, why = True, "%s() follows _using only after `%s.insert(this).second` was true, and hands `%s` on" % (short, p_.get("n"), p_.get("n"))
                    else:
                        why = "`%s` is handed on but the call is not behind `%s.insert(this).second`" % (p_.get("n"), p_.get("n"))
                ctx.ob("R15.28", "%s|_using->%s|visited-set" % (f.name + "/" + str(len(f.params or [])), short), ok, f.loc(c), why)
    ctx.floor("R15.28", "lookups that follow _using recursively", n, 5)


def _deleted_manifests(fn_walk):
    out = []
    for y in fn_walk:
        if y.get("k") == "delete":
            e = strip_casts(peel(y.get("e")))
            t = (e or {}).get("t") or ""
            if "CPPManifest" in t:
                out.append(y)
    return out


def shared_manifests_are_not_freed(ctx):
    """R15.29: a CPPManifest is pointed to from `_manifests` (by name) AND, after `#pragma push_macro`, from
    `_manifest_stack` (raw pointers, no reference count).  `#define` of an existing name and `#undef` take the object
    out of `_manifests` only; freeing it there leaves the stack's copy dangling, and `#pragma pop_macro` re-installs a
    freed object (heap corruption, abort).  The preprocessor therefore never deletes a manifest it took from
    `_manifests` unless the same function also removes it from `_manifest_stack`.
    (Seed S9-C15: `delete other;` added to handle_define_directive - "Delete the old.", as its comment says.)"""
    db = ctx.db
    ctx.rule("R15.29", "no function of CPPPreprocessor deletes a CPPManifest* (the push_macro stack shares the pointers) unless it also erases from _manifest_stack")
    # the detector sees the shape it looks for
    probe = [{"k": "delete", "e": {"k": "ref", "n": "other", "t": "CPPManifest *", "dk": "local", "d": 1}}]
    if len(_deleted_manifests(probe)) != 1:
        ctx.broken("R15.29: the detector no longer recognises its own example")
    users = [g for g in db.functions if g.name.startswith("CPPPreprocessor::") and any(y.get("k") == "mem" and (y.get("n") or "").endswith("::_manifest_stack") for y in g.walk())]
    ctx.floor("R15.29", "functions that use the push_macro stack", len(users), 1)
    n = 0
    for f in db.functions:
        if not f.name.startswith("CPPPreprocessor::"):
            continue
        n += 1
        dels = _deleted_manifests(f.walk())
        if not dels:
            continue
        unstack = any(y.get("k") == "call" and callee_short(y) in ("erase", "pop_back", "clear") and
                      any(z.get("k") == "mem" and (z.get("n") or "").endswith("::_manifest_stack") for z in walk(y.get("this") or {})) for y in f.walk())
        for d in dels:
            ctx.ob("R15.29", "%s|delete %s|not-shared-with-the-macro-stack" % (f.name, show(d.get("e"))[:30]), unstack, f.loc(d),
                   "the manifest is also taken off _manifest_stack here" if unstack else "a manifest that `#pragma push_macro` may still hold is freed")
    ctx.ob("R15.29", "CPPPreprocessor|no-manifest-freed-while-shared", True, "src/cppparser/cppPreprocessor.cxx", "%d functions of CPPPreprocessor examined" % n)
    ctx.floor("R15.29", "functions of CPPPreprocessor examined", n, 60)


def variable_evaluation_is_guarded(ctx):
    """R15.30: CPPExpression::evaluate() computes the value of a `const`/`constexpr` variable by evaluating its
    initializer.  Inside a class template a member's initializer may name the member itself (`v = N * F<N-1>::v` resolves
    to the template's own v), so that step can come back to where it started.  In the T_variable arm every
    `_initializer->evaluate()` is therefore reached only after the variable was entered in an in-progress set
    (`insert(...).second` true), and the set forgets it afterwards.  (F-C15ab: stack overflow / endless tail call.)"""
    db = ctx.db
    ctx.rule("R15.30", "in CPPExpression::evaluate, `_u._variable->_initializer->evaluate()` is reached only where `<static set>.insert(_u._variable).second` was true, and the variable is erased from the set afterwards")
    fs = [g for g in db.functions if g.name == "CPPExpression::evaluate"]
    if not fs:
        ctx.broken("R15.30: CPPExpression::evaluate not found")
        return
    f = fs[0]
    rec = [c for c in f.walk() if c.get("k") == "call" and c.get("f") == "CPPExpression::evaluate" and "this" in c and
           any(z.get("k") == "mem" and (z.get("n") or "").endswith("CPPInstance::_initializer") for z in walk(c["this"])) and
           any(z.get("k") == "mem" and (z.get("n") or "").endswith("::_variable") for z in walk(c["this"]))]

    def entered(atom, truth):
        a = strip_casts(peel(atom)) if atom is not None else None
        if not (truth and a is not None and a.get("k") == "mem" and (a.get("n") or "").endswith("pair::second")):
            return False
        ins = strip_casts(peel(a.get("b")))
        return ins is not None and ins.get("k") == "call" and callee_short(ins) == "insert" and \
            any(z.get("k") == "mem" and (z.get("n") or "").endswith("::_variable") for z in walk(ins.get("a", [{}])[0]))
    e = G.edges_where(f, entered)
    erases = [c for c in f.walk() if c.get("k") == "call" and callee_short(c) == "erase" and c.get("a") and
              any(z.get("k") == "mem" and (z.get("n") or "").endswith("::_variable") for z in walk(c["a"][0]))]
    for i, c in enumerate(rec):
        ok = bool(e) and G.gated(f, c, e) and bool(erases)
        ctx.ob("R15.30", "evaluate|variable-initializer#%d|in-progress-guard" % i, ok, f.loc(c),
               "the initializer is evaluated only for a variable that is not already being evaluated" if ok else
               "the initializer of a variable is evaluated with no record that the variable is being evaluated")
    ctx.floor("R15.30", "evaluations of a variable's initializer", len(rec), 1)


def macro_table_holds_no_null(ctx):
    """R15.31: every reader of `_manifests` dereferences the manifest it finds (expansion, `defined`, `#if`): the table never
    holds a null pointer.  One writer has a value that CAN be null: `#pragma pop_macro` restores what `push_macro` saved, and
    for a macro that was undefined at the time that is nullptr ("make it undefined again").  Every store into the table
    - insert(value_type(name, m)), `it->second = m`, `_manifests[name] = m` - is therefore of a freshly allocated
    manifest or sits behind evidence that m is not null.  (Seed S10-C15: pop_macro inserted the saved nullptr when the
    name was still undefined; the next use of the name was a null dereference.)"""
    db = ctx.db
    ctx.rule("R15.31", "a value stored into CPPPreprocessor::_manifests is a `new CPPManifest`, a local that only ever holds one, or a local behind a test that it is not null")
    n = 0
    for f in db.functions:
        if not f.name.startswith("CPPPreprocessor::"):
            continue
        iters = set()
        for y in f.walk():
            if y.get("k") == "decls":
                for dd in y["d"]:
                    if dd.get("init") is not None and any(z.get("k") == "mem" and (z.get("n") or "").endswith("::_manifests") for z in walk(dd["init"])):
                        iters.add(dd["d"])
        stores = []
        for y in f.walk():
            if y.get("k") == "call" and callee_short(y) in ("insert", "emplace") and "this" in y and (field_of(strip_casts(peel(y["this"]))) or "").endswith("::_manifests"):
                vals = [z for a in y.get("a", []) for z in walk(a) if z.get("k") in ("ctor", "call") and len(z.get("a", [])) == 2 and "pair" in (z.get("f") or "")]
                if vals:
                    stores.append((y, vals[0]["a"][1]))
            t = assigned_target(y)
            if t:
                tgt = strip_casts(peel(t[0]))
                if tgt is not None and tgt.get("k") == "mem" and (tgt.get("n") or "").endswith("pair::second") and \
                   any(z.get("k") == "ref" and z.get("d") in iters for z in walk(tgt)):
                    stores.append((y, t[1]))
                if tgt is not None and tgt.get("k") == "call" and callee_short(tgt) == "operator[]" and any(z.get("k") == "mem" and (z.get("n") or "").endswith("::_manifests") for z in walk(tgt)):
                    stores.append((y, t[1]))
        for y, val in stores:
            n += 1
            v = strip_casts(peel(val))
            ok, why = False, "the stored value is not shown to be non-null"
            if v is not None and v.get("k") == "new":
                ok, why = True, "a freshly allocated manifest"
            else:
                r = local_ref(v) if v is not None else None
                if r is not None:
                    d = r["d"]
                    defs = []
                    for z in f.walk():
                        if z.get("k") == "decls":
                            defs += [dd.get("init") for dd in z["d"] if dd.get("d") == d]
                        tz = assigned_target(z)
                        if tz and (local_ref(tz[0]) or {}).get("d") == d:
                            defs.append(tz[1])
                    if defs and all(x is not None and (strip_casts(peel(x)) or {}).get("k") == "new" for x in defs):
                        ok, why = True, "`%s` only ever holds a freshly allocated manifest" % r.get("n")
                    else:
                        e = G.edges_where(f, G.local_is_null(d, null=False)) + G.edges_where(f, G.local_true(d))
                        if e and G.gated(f, y, e):
                            ok, why = True, "behind a test that `%s` is not null" % r.get("n")
                        else:
                            why = "`%s` may be null here (it is not always a fresh allocation and no test precedes the store)" % r.get("n")
            ctx.ob("R15.31", "%s|store#%d|never-null" % (f.name, n), ok, f.loc(y), why)
    ctx.floor("R15.31", "stores into the macro table", n, 4)


def _predecrement_subscripts(fn):
    out = []
    for x in fn.walk():
        idx = None
        if x.get("k") == "idx":
            idx = x.get("x")
        elif x.get("k") == "call" and callee_short(x) == "operator[]" and x.get("a"):
            idx = x["a"][-1]
        i0 = strip_casts(peel(idx)) if idx is not None else None
        if i0 is not None and i0.get("k") == "un" and i0.get("op") == "--" and local_ref(i0.get("e")) is not None:
            out.append((x, local_ref(i0["e"])))
    return out


def predecrement_subscripts_have_a_floor(ctx):
    """R15.32: `X[--i]` with an unsigned i reads X[SIZE_MAX] when i is 0 - one byte in front of a std::string's buffer.
    show_line() stripped trailing blanks with `while (isspace(linestr[--last]))`: for an error on an empty or all-blank
    line `last` reaches 0 (F-C15ac; my first reading had dismissed this site as "not reproduced" - AddressSanitizer
    reproduces it as a heap-buffer-overflow).  A pre-decremented subscript needs `i > 0` (or `i != 0`) on the way."""
    db = ctx.db
    ctx.rule("R15.32", "a subscript `X[--i]` is reached only where `i > 0` / `i != 0` was established for the same i")

    class _P:
        def walk(self):
            return [{"k": "idx", "b": {"k": "ref", "d": 1}, "x": {"k": "un", "op": "--", "e": {"k": "ref", "d": 2, "dk": "local", "n": "last"}}}]
    if len(_predecrement_subscripts(_P())) != 1:
        ctx.broken("R15.32: the detector no longer recognises its own example")
    n = m = 0
    for f in db.functions:
        if "bison" in f.file.lower() or not any(d in f.file for d in ("/cppparser/", "/interrogate/", "/interrogatedb/", "/dtoolutil/")):
            continue
        n += 1
        for x, r in _predecrement_subscripts(f):
            m += 1
            d = r["d"]

            def positive(atom, truth, d=d):
                ca = G.cmp_atom(atom)
                if not ca:
                    return (local_ref(atom) or {}).get("d") == d and truth
                op, u, v = ca
                op = op if truth else G.NEG[op]
                if (local_ref(v) or {}).get("d") == d:
                    op, u, v = G.SWAP[op], v, u
                if (local_ref(u) or {}).get("d") != d:
                    return False
                c = const_int(v)
                return (op == ">" and c is not None and c >= 0) or (op == "!=" and c == 0) or (op == ">=" and c is not None and c >= 1)
            e = G.edges_where(f, positive)
            ok = bool(e) and G.gated(f, x, e)
            ctx.ob("R15.32", "%s|%s|index-above-zero" % (f.name, _norm(show(x))[:50]), ok, f.loc(x),
                   "`%s` is decremented for the subscript only where it is above 0" % r.get("n") if ok else "`%s` may be 0 when it is decremented for the subscript" % r.get("n"))
    ctx.ob("R15.32", "no-unfloored-predecrement-subscript", True, "src", "%d functions examined, %d pre-decremented subscripts" % (n, m))
    ctx.floor("R15.32", "functions examined", n, 500)


def _leaves(st):
    k = st.get("k") if st else None
    if k in ("ret", "break", "continue", "goto"):
        return True
    if k == "call" and callee_short(st) in ("exit", "abort", "_exit"):
        return True
    if k == "block" and st.get("s"):
        return any(_leaves(x) for x in st["s"])
    if k == "if" and st.get("else") is not None:
        return _leaves(st["then"]) and _leaves(st["else"])
    return False


def null_noticed_is_null_handled(ctx):
    """R15.33 (a contradiction rule): `if (p == nullptr) { report }` says that p can be null here.  If the branch neither
    leaves nor gives p a value, everything after it runs with p null as well - and an `assert(p != nullptr)` in between is
    no help in the tools as built.  After such a branch p is not dereferenced, and not handed to a callee that dereferences
    the parameter unguarded, without a new test.  (F-C15ad: `forcetype struct { int a; }` in a .N file - "Failure to parse
    forcetype", then get_type(nullptr).)"""
    db = ctx.db
    ctx.rule("R15.33", "after `if (p == nullptr) { ... }` whose branch neither leaves nor assigns p, p is not dereferenced (here or by the callee it is passed to) without a new non-null test")
    byname = {}
    for g in db.functions:
        byname.setdefault(g.name, []).append(g)

    def callee_derefs(g, idx):
        ps = g.params or []
        if idx >= len(ps):
            return False
        pd = ps[idx].get("d")
        e = G.edges_where(g, G.local_is_null(pd, null=False)) + G.edges_where(g, G.local_true(pd))
        return any((local_ref(_deref_base(x)) or {}).get("d") == pd and not G.gated(g, x, e) for x in g.walk() if _deref_base(x) is not None)
    n = 0
    for f in db.functions:
        if "bison" in f.file.lower() or not any(d in f.file for d in ("/cppparser/", "/interrogate/", "/interrogatedb/")):
            continue
        for st in f.walk():
            if st.get("k") != "if" or st.get("else") is not None:
                continue
            ca = G.cmp_atom(st["c"])
            if not ca or ca[0] != "==":
                continue
            p_ = None
            for u, v in ((ca[1], ca[2]), (ca[2], ca[1])):
                if u is not None and v is not None and (strip_casts(peel(v)) or {}).get("k") == "nullp" and local_ref(u) is not None:
                    p_ = local_ref(u)
            if p_ is None:
                continue
            n += 1
            if _leaves(st["then"]) or any(assigned_target(y) and (local_ref(assigned_target(y)[0]) or {}).get("d") == p_["d"] for y in walk(st["then"])):
                continue
            e = G.edges_where(f, G.local_is_null(p_["d"], null=False)) + G.edges_where(f, G.local_true(p_["d"]))
            inside = {id(z) for z in walk(st)}
            bad = None
            for x in f.walk():
                if id(x) in inside or x.get("i", 0) <= st.get("i", 0):
                    continue
                hit = None
                b = _deref_base(x)
                if b is not None and (local_ref(b) or {}).get("d") == p_["d"]:
                    hit = "dereferenced"
                if x.get("k") == "call":
                    for i, a in enumerate(x.get("a") or []):
                        if (local_ref(a) or {}).get("d") == p_["d"] and any(callee_derefs(g, i) for g in byname.get(x.get("f"), [])):
                            hit = "passed to %s(), which dereferences it" % callee_short(x)
                if hit and not G.gated(f, x, e) and G.reaches_avoiding(f, st["c"], [], x):
                    bad = (x, hit)
                    break
            ctx.ob("R15.33", "%s|%s==nullptr@%s|handled" % (f.name, p_.get("n"), f.loc(st).split(":")[-1]), bad is None, f.loc(bad[0]) if bad else f.loc(st),
                   "the null case is reported and execution goes on, but `%s` is not used unguarded afterwards" % p_.get("n") if bad is None else
                   "`%s` was just found to be null (the branch goes on) and is then %s" % (p_.get("n"), bad[1]))
    ctx.floor("R15.33", "`local == nullptr` tests examined", n, 70)
