"""Gate engine: which CFG edges establish a fact, and gated reachability.

A *gate kind* is a predicate on a branch condition atom that says, for each
polarity, whether taking that edge establishes the fact ("pass").  A sink is
*gated* by G when it is unreachable from the function entry once every pass
edge of G (direct, or derived through a local bool flag that can only become
true behind G) is removed.
"""
from ..facts import peel, strip_casts, show, walk, cond_atom
from .common import callee_short, const_int, field_of, local_ref, assigned_target

NEG = {"<": ">=", "<=": ">", ">": "<=", ">=": "<", "==": "!=", "!=": "=="}
SWAP = {"<": ">", "<=": ">=", ">": "<", ">=": "<=", "==": "==", "!=": "!="}


def cmp_atom(atom):
    """(op, lhs, rhs) for builtin or overloaded comparisons."""
    if atom is None:
        return None
    if atom.get("k") == "bin" and atom.get("op") in NEG:
        return atom["op"], strip_casts(atom["x"]), strip_casts(atom["y"])
    if atom.get("k") == "call" and atom.get("opc") and len(atom.get("a", [])) == 2:
        s = callee_short(atom)
        if s.startswith("operator") and s[8:] in NEG:
            return s[8:], strip_casts(atom["a"][0]), strip_casts(atom["a"][1])
    return None


def branch_atoms(fn):
    """Yield (block id, atom, pos) for every two-way branch."""
    cfg = fn.cfg
    for bid, b in cfg.blocks.items():
        if b.cond is None or len(b.succs) != 2:
            continue
        c = fn.nodes.get(b.cond)
        if c is None:
            continue
        atom, pos = cond_atom(fn, c)
        if atom is not None:
            yield bid, atom, pos


def establishes(node, truth, holds):
    """Does `node == truth` guarantee that some accepted fact holds?
    Sound for arbitrary short-circuit trees:
      (A && B) true  -> A true and B true   : enough that one of them is accepted
      (A && B) false -> A false or B false  : both must be accepted
      (A || B) true  -> A true or B true    : both must be accepted
      (A || B) false -> A false and B false : enough that one is accepted"""
    n = peel(node)
    if n is None:
        return False
    if n.get("k") == "un" and n.get("op") == "!":
        return establishes(n["e"], not truth, holds)
    if n.get("k") == "call" and n.get("opc") and n.get("f", "").endswith("operator!") and len(n.get("a", [])) == 1:
        return establishes(n["a"][0], not truth, holds)
    if n.get("k") == "call" and n.get("f") == "__builtin_expect" and n.get("a"):
        return establishes(n["a"][0], truth, holds)       # LIKELY(x) / UNLIKELY(x) = __builtin_expect(!!(x), k)
    if n.get("k") == "bin" and n.get("op") in ("&&", "||"):
        conj = (n["op"] == "&&") == truth
        a, b = establishes(n["x"], truth, holds), establishes(n["y"], truth, holds)
        return (a or b) if conj else (a and b)
    return bool(holds(n, truth))


def edges_where(fn, holds):
    """holds(atom, truth) -> bool: does `atom == truth` establish an accepted fact?
    Returns the (block, succ index) edges on which some accepted fact holds."""
    out = []
    cfg = fn.cfg
    for bid, b in cfg.blocks.items():
        if b.cond is None or len(b.succs) != 2:
            continue
        c = fn.nodes.get(b.cond)
        if c is None:
            continue
        if establishes(c, True, holds):
            out.append((bid, 0))
        if establishes(c, False, holds):
            out.append((bid, 1))
    return out


def any_of(*preds):
    preds = [p for p in preds if p is not None]

    def holds(atom, truth):
        return any(p(atom, truth) for p in preds)
    return holds


# ---- gate kinds ----------------------------------------------------------
def is_field(n, suffix):
    f = field_of(n)
    return f is not None and (f == suffix or f.endswith("::" + suffix.split("::")[-1]) and f.split("::")[-1] == suffix.split("::")[-1])


def vis_le(bound_name):
    """fact: <something>._vis <= bound   (bound = global/enumerator name)"""
    def is_bound(n):
        return n is not None and n.get("k") == "ref" and n.get("n", "").split("::")[-1] == bound_name

    def is_vis(n):
        f = field_of(n)
        return f is not None and f.split("::")[-1] == "_vis"

    def holds(atom, truth):
        c = cmp_atom(atom)
        if not c:
            return False
        op, a, b = c
        if is_vis(b) and is_bound(a):
            op, a, b = SWAP[op], b, a
        if not (is_vis(a) and is_bound(b)):
            return False
        if not truth:
            op = NEG[op]
        return op in ("<=", "<", "==")
    return holds


def source_is_local():
    """fact: <file>._source == CPPFile::S_local"""
    def holds(atom, truth):
        c = cmp_atom(atom)
        if not c:
            return False
        op, a, b = c
        for x, y in ((a, b), (b, a)):
            f = field_of(x)
            if f and f.split("::")[-1] == "_source" and y is not None and y.get("k") == "ref" and y.get("n", "").endswith("S_local"):
                o = op if truth else NEG[op]
                return o == "=="
        return False
    return holds


def pred_false(*names):
    """fact: predicate call returned false"""
    def holds(atom, truth):
        return atom.get("k") == "call" and (atom.get("f") in names or callee_short(atom) in names) and not truth
    return holds


def pred_true(*names):
    def holds(atom, truth):
        return atom.get("k") == "call" and (atom.get("f") in names or callee_short(atom) in names) and truth
    return holds


def bits_clear(field_short, *enumerators):
    """fact: (x.<field> & (E1|E2…)) == 0 for all listed enumerators"""
    want = set(enumerators)

    def mask_names(n):
        return {x["n"].split("::")[-1] for x in walk(n) if x.get("k") == "ref" and x.get("dk") == "enumc"}

    def holds(atom, truth):
        a = atom
        op = None
        c = cmp_atom(atom)
        if c and const_int(c[2]) == 0:
            op, a = c[0], c[1]
        elif c and const_int(c[1]) == 0:
            op, a = c[0], c[2]
        a = strip_casts(a)
        if a is None or a.get("k") != "bin" or a.get("op") != "&":
            return False
        f = field_of(a["x"]) or field_of(a["y"])
        if not f or f.split("::")[-1] != field_short:
            return False
        names = mask_names(a)
        if not want <= names:
            return False
        # bare `x & M` is true when a bit is set
        nonzero_when_true = (op is None) or (op == "!=") or (op == ">")
        if op == "==":
            nonzero_when_true = False
        bits_set = truth if nonzero_when_true else (not truth)
        return not bits_set
    return holds


def local_true(decl_id):
    def holds(atom, truth):
        r = local_ref(atom)
        return r is not None and r.get("d") == decl_id and truth
    return holds


def local_is_null(decl_id, null=True):
    def holds(atom, truth):
        c = cmp_atom(atom)
        if not c:
            return False
        op, a, b = c
        for x, y in ((a, b), (b, a)):
            r = local_ref(x)
            if r is not None and r.get("d") == decl_id and y is not None and y.get("k") == "nullp":
                o = op if truth else NEG[op]
                return (o == "==") == null
        return False
    return holds


# ---- flags ---------------------------------------------------------------
def bool_flags(fn):
    """Local bool variables initialised false: decl id -> (name, [nodes assigning a non-false value])."""
    out = {}
    for n in fn.walk():
        if n.get("k") == "decls":
            for d in n["d"]:
                if d.get("ct") == "bool" and "init" in d and const_int(d["init"]) == 0:
                    out[d["d"]] = (d["n"], [])
    for n in fn.walk():
        t = assigned_target(n)
        if t:
            l = local_ref(t[0])
            if l is not None and l.get("d") in out:
                if const_int(t[1]) != 0:
                    out[l["d"]][1].append(n)
        if n.get("k") == "bin" and n.get("op") in ("|=", "&=", "^="):
            l = local_ref(n["x"])
            if l is not None and l.get("d") in out:
                out[l["d"]][1].append(n)
    return out


def gate_edges(fn, *preds):
    """Edges establishing one of the accepted facts, closed under local bool
    flags: a flag initialised false whose every true-assignment is unreachable
    once the accepted edges are cut carries the fact when it tests true."""
    cfg = fn.cfg
    preds = [p for p in preds if p is not None]
    flags = bool_flags(fn)
    used = []
    while True:
        edges = edges_where(fn, any_of(*preds))
        reach = cfg.reachable(cut_edges=edges)
        added = False
        for d, (name, sets) in flags.items():
            if d in used or not sets:
                continue
            if all((cfg.locate(s) is None or cfg.locate(s)[0] not in reach) for s in sets):
                preds.append(local_true(d))
                used.append(d)
                added = True
        if not added:
            return edges, [flags[d][0] for d in used]


def with_derived_flags(fn, edges):   # kept for callers holding plain edge lists
    return list(edges), []


def gated(fn, sink, edges):
    """True iff the sink's block is unreachable from entry with `edges` cut."""
    loc = fn.cfg.locate(sink)
    if loc is None:
        return True
    return loc[0] not in fn.cfg.reachable(cut_edges=edges)


def reaches_avoiding(f, src, via, sink):
    """True if `sink` can be reached from just after `src` without executing any node of `via` (element-granular walk
    over the CFG; all arguments are tree nodes)."""
    cfg = f.cfg
    ls, lk = cfg.locate(src), cfg.locate(sink)
    if ls is None or lk is None:
        return True
    stops = {}
    for v in via:
        lv = cfg.locate(v)
        if lv is not None:
            stops.setdefault(lv[0], []).append(lv[1])
    seen = set()
    stack = [(ls[0], ls[1] + 1)]
    while stack:
        b, i = stack.pop()
        if (b, i > 0) in seen:
            continue
        seen.add((b, i > 0))
        cut = min([j for j in stops.get(b, []) if j >= i], default=None)
        if lk[0] == b and lk[1] >= i and (cut is None or lk[1] < cut):
            return True
        if cut is not None:
            continue
        blk = cfg.blocks[b]
        if blk.noret:
            continue
        for s in blk.succs:
            if s is not None:
                stack.append((s, 0))
    return False
