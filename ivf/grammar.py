"""Reader for cppBison.yxx: precedence declarations, tokens, and the productions
(right-hand-side symbols, %prec, action text) of the rules section."""
import re


class Alt:
    def __init__(self, lhs, syms, prec, action, line):
        self.lhs = lhs
        self.syms = syms        # list of symbol strings ('+' chars keep their quotes: "'+'")
        self.prec = prec
        self.action = action    # text of the *final* action block ('' if none)
        self.mid_actions = []
        self.line = line

    def __repr__(self):
        return "%s: %s%s" % (self.lhs, " ".join(self.syms), (" %prec " + self.prec) if self.prec else "")


class Grammar:
    def __init__(self, text):
        self.text = text
        parts = re.split(r"^%%\s*$", text, flags=re.M)
        if len(parts) < 2:
            raise ValueError("no %% separator in grammar")
        self.decls = parts[0]
        self.rules_text = parts[1]
        self.rules_offset_line = parts[0].count("\n") + 1
        self.prec = []      # [(assoc, [symbols])] lowest first
        self.tokens = set()
        self._parse_decls()
        self.rules = {}     # lhs -> [Alt]
        self._parse_rules()

    def _parse_decls(self):
        # strip the %{ ... %} prologue and /* */ comments
        d = re.sub(r"%\{.*?%\}", lambda m: "\n" * m.group(0).count("\n"), self.decls, flags=re.S)
        d = re.sub(r"/\*.*?\*/", lambda m: "\n" * m.group(0).count("\n"), d, flags=re.S)
        for line in d.split("\n"):
            line = line.strip()
            m = re.match(r"%(left|right|nonassoc)\s+(.*)$", line)
            if m:
                syms = re.findall(r"'(?:\\.|[^'])'|[A-Za-z_][A-Za-z_0-9]*", m.group(2))
                self.prec.append((m.group(1), syms))
                continue
            m = re.match(r"%token\s+(?:<[^>]*>\s*)?([A-Za-z_][A-Za-z_0-9]*)", line)
            if m:
                self.tokens.add(m.group(1))

    def level(self, sym):
        """(index, assoc) of a terminal in the precedence table (higher binds tighter) or None."""
        for i, (assoc, syms) in enumerate(self.prec):
            if sym in syms:
                return i, assoc
        return None

    def _parse_rules(self):
        t = self.rules_text
        i, n = 0, len(t)
        line = self.rules_offset_line
        lhs = None
        cur_syms, cur_prec, cur_action, mids = [], None, "", []
        alt_line = line

        def flush():
            nonlocal cur_syms, cur_prec, cur_action, mids, alt_line
            if lhs is not None:
                a = Alt(lhs, cur_syms, cur_prec, cur_action, alt_line)
                a.mid_actions = mids
                self.rules.setdefault(lhs, []).append(a)
            cur_syms, cur_prec, cur_action, mids = [], None, "", []
            alt_line = line
        while i < n:
            c = t[i]
            if c == "\n":
                line += 1
                i += 1
            elif c.isspace():
                i += 1
            elif t.startswith("/*", i):
                j = t.find("*/", i)
                j = n if j < 0 else j + 2
                line += t.count("\n", i, j)
                i = j
            elif t.startswith("//", i):
                j = t.find("\n", i)
                i = n if j < 0 else j
            elif c == "{":
                # action block with nested braces / strings / chars / comments
                depth, j = 0, i
                while j < n:
                    ch = t[j]
                    if ch == "{":
                        depth += 1
                    elif ch == "}":
                        depth -= 1
                        if depth == 0:
                            break
                    elif ch == '"' or ch == "'":
                        q = ch
                        j += 1
                        while j < n and t[j] != q:
                            if t[j] == "\\":
                                j += 1
                            j += 1
                    elif t.startswith("/*", j):
                        j = t.find("*/", j) + 1
                    elif t.startswith("//", j):
                        j = t.find("\n", j)
                    j += 1
                block = t[i:j + 1]
                if cur_action:
                    mids.append(cur_action)
                    cur_syms.append("@action")
                cur_action = block
                line += block.count("\n")
                i = j + 1
            elif c == "'":
                j = i + 1
                while t[j] != "'":
                    if t[j] == "\\":
                        j += 1
                    j += 1
                if cur_action:
                    mids.append(cur_action)
                    cur_syms.append("@action")
                    cur_action = ""
                cur_syms.append(t[i:j + 1])
                i = j + 1
            elif c == "|":
                flush()
                i += 1
            elif c == ";":
                flush()
                lhs = None
                i += 1
            elif c == "%":
                m = re.match(r"%prec\s+([A-Za-z_][A-Za-z_0-9]*|'(?:\\.|[^'])')", t[i:])
                if m:
                    cur_prec = m.group(1)
                    i += m.end()
                elif t.startswith("%%", i):
                    break
                else:
                    m = re.match(r"%[a-z-]+", t[i:])
                    i += m.end() if m else 1
            elif c.isalpha() or c == "_":
                m = re.match(r"[A-Za-z_][A-Za-z_0-9]*", t[i:])
                word = m.group(0)
                k = i + m.end()
                # is this a rule head?  (identifier followed by ':')
                kk = k
                while kk < n and t[kk] in " \t\r\n":
                    kk += 1
                if lhs is None and kk < n and t[kk] == ":":
                    lhs = word
                    line += t.count("\n", k, kk)
                    i = kk + 1
                    cur_syms, cur_prec, cur_action, mids = [], None, "", []
                    alt_line = line
                else:
                    if cur_action:
                        mids.append(cur_action)
                        cur_syms.append("@action")
                        cur_action = ""
                    cur_syms.append(word)
                    i = k
            else:
                i += 1


EXPR_CTOR = re.compile(r"new\s+CPPExpression\(\s*([A-Za-z_:][A-Za-z_0-9:]*|'(?:\\.|[^'])')\s*((?:,\s*\$\d+\s*)*)(,[^)]*)?\)")


def expr_action(alt):
    """For an expression alternative: (op constant, [operand positions], has_extra)
    from `$$ = new CPPExpression(OP, $i, $j, …)`, or None."""
    m = EXPR_CTOR.search(alt.action or "")
    if not m:
        return None
    op = m.group(1)
    if "::" in op or op in ("CPPExpression",):
        return None
    pos = [int(x) for x in re.findall(r"\$(\d+)", m.group(2) or "")]
    return op, pos, bool(m.group(3))
