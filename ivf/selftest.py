"""Thorough tier: test the checker both ways on scratch copies of /repo/src.

Each mutant (selftest/mutants.py) is one exact textual edit that compiles and
leaves the ten suite tests green but breaks one rule instance; the rule must
fire and name that instance.  Each benign edit (a behaviour-preserving
refactor) must stay silent.  A mutant that is not killed, or a benign edit
that fires, makes the thorough run "analysis broken" (exit 2): the checker,
not the repository, is at fault.  Mutants whose anchor text no longer exists in
the working tree are reported as stale and skipped.
"""
import importlib
import os
import shutil
import sys
import tempfile
import time

from . import prep, facts, report


def load_mutants(prop):
    sys.path.insert(0, os.path.join(prep.VERIF, "selftest"))
    try:
        import mutants  # noqa
        importlib.reload(mutants)
    finally:
        sys.path.pop(0)
    return [m for m in mutants.MUTANTS if m["prop"] == prop]


def apply_edits(root, edits):
    """edits: [(relative file, old, new[, count])] — each old must occur exactly once (or `count` times)."""
    for e in edits:
        rel, old, new = e[0], e[1], e[2]
        want = e[3] if len(e) > 3 else 1          # optional 4th element: the anchor occurs exactly this often, all are replaced
        p = os.path.join(root, rel)
        if not os.path.exists(p):
            return "missing file " + rel
        s = open(p, encoding="utf-8", errors="surrogateescape").read()
        if s.count(old) != want:
            return "anchor text occurs %d times in %s" % (s.count(old), rel)
        s = s.replace(old, new)
        open(p, "w", encoding="utf-8", errors="surrogateescape").write(s)
    return None


def run_rules_on(prop, src):
    mod = importlib.import_module("ivf.rules." + prop)
    db = facts.load(src)
    ctx = report.Ctx(prop, "selftest", db)
    mod.run(ctx)
    known = report.load_known()
    failed = [o for o in ctx.obligations if not o["ok"] and (prop, o["key"]) not in known]
    if not failed:
        for rule, what, count, minimum in ctx.floors:
            if count < minimum:
                raise prep.AnalysisBroken("%s: %s = %d < %d" % (rule, what, count, minimum))
    return failed


def _one(args):
    prop, m = args
    base = os.environ.get("TMPDIR") or "/var/tmp"
    scratch = tempfile.mkdtemp(prefix="ivf-mut.", dir=base)
    try:
        dst = os.path.join(scratch, "src")
        shutil.copytree(prep.SRC, dst, ignore=shutil.ignore_patterns("*.prebuilt"))
        err = apply_edits(dst, [((e[0].replace("src/", "", 1) if e[0].startswith("src/") else e[0]),) + tuple(e[1:]) for e in m["edits"]])
        if err:
            return {"mutant": m["id"], "status": "stale", "why": err}
        failed, broken = [], None
        for attempt in (0, 1):
            try:
                failed = run_rules_on(prop, dst)
                broken = None
                break
            except prep.AnalysisBroken as e:
                # one retry: an extractor run can fail transiently when the machine is heavily loaded
                failed, broken = [], str(e)
                if "extractor failed" not in broken or m.get("expect_broken") or m.get("allow_broken"):
                    break
        keys = [o["key"] for o in failed]
        if m.get("benign"):
            ok = not failed and (broken is None or m.get("allow_broken"))
            return {"mutant": m["id"], "status": "silent" if ok else "FALSE-ALARM", "benign": True,
                    "fired": keys[:5], "broken": broken}
        hit = [k for k in keys if m["expect"] in k]
        ok = bool(hit)
        if not ok and broken and m.get("expect_broken"):
            ok = True
        return {"mutant": m["id"], "status": "killed" if ok else "SURVIVED", "expect": m["expect"],
                "fired": keys[:5], "broken": broken}
    except Exception as e:  # checker crashed on the mutant
        import traceback
        return {"mutant": m["id"], "status": "SURVIVED" if not m.get("benign") else "FALSE-ALARM",
                "why": "checker error: %s" % traceback.format_exc()[-600:]}
    finally:
        shutil.rmtree(scratch, ignore_errors=True)


def run(ctx, prop, only=None):
    muts = load_mutants(prop)
    if only:
        muts = [m for m in muts if only in m["id"]]
    if not muts:
        ctx.info("selftest: no mutants registered for " + prop)
        return
    t0 = time.time()
    from concurrent.futures import ProcessPoolExecutor
    os.environ.setdefault("IVF_JOBS", "4")
    with ProcessPoolExecutor(max_workers=min(6, len(muts))) as ex:
        results = list(ex.map(_one, [(prop, m) for m in muts]))
    ctx.extra["selftest"] = {"wall_s": round(time.time() - t0, 1), "results": results,
                             "killed": sum(1 for r in results if r["status"] == "killed"),
                             "silent_on_benign": sum(1 for r in results if r["status"] == "silent"),
                             "stale": sum(1 for r in results if r["status"] == "stale")}
    for r in results:
        print("  selftest %-40s %s %s%s" % (r["mutant"], r["status"], (r.get("why") or "")[-300:].replace("\n", " | ") or (r.get("fired") if r["status"] in ("SURVIVED", "FALSE-ALARM") else ""),
                                             ("  [analysis broken on the edited tree: %s]" % r["broken"][:300]) if (r.get("broken") and r["status"] in ("SURVIVED", "FALSE-ALARM")) else ""))
    bad = [r for r in results if r["status"] in ("SURVIVED", "FALSE-ALARM")]
    if bad:
        raise prep.AnalysisBroken("self-test: %s" % ", ".join("%s %s" % (r["mutant"], r["status"]) for r in bad))


if __name__ == "__main__":
    # python3 -m ivf.selftest C11 [mutant-id]   — developer entry point
    prop = sys.argv[1]
    only = sys.argv[2] if len(sys.argv) > 2 else None

    class _C:
        extra = {}

        def info(self, t):
            print(t)
    try:
        run(_C(), prop, only)
    except prep.AnalysisBroken as e:
        print("BROKEN:", e)
        sys.exit(2)
